#!/bin/sh
# Dev helper: apply a canary patch to /repo, run one quick check on it, revert.
# usage: tools_canary.sh <patch file> <ID> [extra env assignments]
P="$1"; ID="$2"; shift 2
cd /repo && git apply "$P" || exit 3
cd /verif && env VERIF_OUT=/tmp/canary "$@" ./check "$ID" quick > /tmp/canary-$ID.log 2>&1; RC=$?
git -C /repo checkout -- .
echo "canary $(basename $P) on $ID: exit=$RC $(grep -c '^VIOLATION' /tmp/canary-$ID.log) violation line(s); $(grep '^violation' /tmp/canary-$ID.log | head -2 | cut -c1-220)"
# rebuild the harness binaries from the reverted tree (the check above left mutant binaries)
cd /verif && cargo build --offline --workspace >/dev/null 2>&1
