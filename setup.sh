#!/bin/sh
# Builds the verification workspace from files on disk only (offline).
set -e
cd /verif
export CARGO_NET_OFFLINE=true
cargo build --offline --workspace 2>&1 | tail -5
