//! depsim — C31: dependency resolution is deterministic and picks the best version.
//!
//! Simulated system: a root project, four dependency repositories on local
//! `file://` URLs whose `Veryl.pub` release lists evolve (created and published
//! with veryl's own `Git`/`Metadata::publish`/`bump_version`), `Veryl.lock`, and
//! the user cache (`resolve/`, `dependencies/`). Histories of publishes,
//! requirement changes, dependency additions/removals/aliases, builds
//! (`update_lockfile`), forced updates, cache deletion and crashes inside
//! `Lockfile::save` are run against a 40-line reference resolver.

use serde::{Deserialize, Serialize};
use serde_json::json;
use simcore::evidence::{Counters, Evidence};
use simcore::fsutil::{self, Scratch};
use simcore::rng::{mix, verif_seed, Rng};
use std::collections::{BTreeMap, BTreeSet};
use std::path::{Path, PathBuf};
use veryl_metadata::semver::{Version, VersionReq};
use veryl_metadata::{BumpKind, Git, LockSource, Lockfile, Metadata};
use veryl_path::sim::{self, Verdict};

const NREPOS: usize = 4;
/// Static dependencies of the dependency repositories: lib0 -> lib2, lib1 -> lib2 (diamond), lib3 -> lib1.
const INNER: [&[(usize, &str)]; NREPOS] = [&[(2, "0.1")], &[(2, "0")], &[], &[(1, "0.1")]];
const REQS: [&str; 9] = ["0.1.0", "0.1", "0", "0", "*", "=0.1.0", ">=0.1.1, <1.0.0", "*", "1"];

#[derive(Clone, Debug, Serialize, Deserialize, PartialEq)]
pub enum Step {
    /// bump (0 patch, 1 minor, 2 major) and publish a new release of a repository
    Publish { repo: usize, bump: u8 },
    /// publish a maintenance release of an older line after a newer release exists
    /// (Veryl.pub is then not in ascending version order)
    Backport { repo: usize },
    /// set / add root dependency `name` on repo with a requirement (alias when name != lib<repo>)
    SetDep { name: String, repo: usize, req: String },
    RemoveDep { name: String },
    /// what every build does: load the project, update_lockfile()
    Build,
    /// `veryl update`: resolve everything to the latest matching release
    ForceUpdate,
    DeleteUserCache,
    /// a build whose Veryl.lock write dies at atomic-write gate `gate` (0 create, 1 data, 2 rename)
    BuildCrash { gate: usize, prefix: Option<u64> },
}

#[derive(Clone, Debug, Serialize, Deserialize)]
pub struct Scenario {
    pub initial_deps: Vec<(String, usize, String)>,
    pub steps: Vec<Step>,
}

struct World {
    scratch: Scratch,
    versions: Vec<Vec<Version>>,
    deps: BTreeMap<String, (usize, String)>,
    /// model of the lock table: (repo, version) set, from the last successful update
    locked: BTreeSet<(usize, Version)>,
}

impl World {
    fn repo_dir(&self, i: usize) -> PathBuf {
        self.scratch.path.join("repos").join(format!("lib{i}"))
    }
    fn url(&self, i: usize) -> String {
        format!("file://{}", self.repo_dir(i).to_string_lossy())
    }
    fn main_dir(&self) -> PathBuf {
        self.scratch.path.join("main")
    }
    fn cache(&self) -> PathBuf {
        self.scratch.path.join("ucache")
    }
    fn write_main_toml(&self) {
        let mut s = String::from("[project]\nname = \"main\"\nversion = \"0.1.0\"\n\n[dependencies]\n");
        for (name, (repo, req)) in &self.deps {
            s.push_str(&format!("{name} = {{git = \"{}\", project = \"lib{repo}\", version = \"{req}\"}}\n", self.url(*repo)));
        }
        fsutil::write_file(&self.main_dir().join("Veryl.toml"), s.as_bytes());
    }
}

fn on_thread<T: Send + 'static>(cache: PathBuf, f: impl FnOnce() -> T + Send + 'static) -> Result<T, String> {
    std::thread::Builder::new()
        .stack_size(32 << 20)
        .spawn(move || {
            sim::set_thread_cache_path(Some(cache));
            f()
        })
        .unwrap()
        .join()
        .map_err(|p| p.downcast_ref::<String>().cloned().or_else(|| p.downcast_ref::<&str>().map(|s| s.to_string())).unwrap_or("panic".into()))
}

fn repo_toml(root: &Path, i: usize, version: &str) -> String {
    let repo_dir = |k: usize| root.join("repos").join(format!("lib{k}"));
    let mut toml = format!("[project]\nname = \"lib{i}\"\nversion = \"{version}\"\n\n[publish]\nbump_commit = true\npublish_commit = true\n");
    if !INNER[i].is_empty() {
        toml.push_str("\n[dependencies]\n");
        for (r, req) in INNER[i] {
            toml.push_str(&format!("lib{r} = {{git = \"file://{}\", version = \"{req}\"}}\n", repo_dir(*r).to_string_lossy()));
        }
    }
    toml
}

/// Checks `version` into the repository's Veryl.toml; publishes it when asked.
fn set_version(root: &Path, i: usize, version: &str, publish_it: bool) -> Result<(), String> {
    let dir = root.join("repos").join(format!("lib{i}"));
    let toml_path = dir.join("Veryl.toml");
    fsutil::write_file(&toml_path, repo_toml(root, i, version).as_bytes());
    let git = Git::open(&dir).map_err(|e| e.to_string())?;
    git.add(&toml_path).map_err(|e| e.to_string())?;
    git.commit(&format!("Set version {version}")).map_err(|e| e.to_string())?;
    if publish_it {
        let mut md = Metadata::load(&toml_path).map_err(|e| e.to_string())?;
        md.publish().map_err(|e| format!("publish {version}: {e}"))?;
    }
    Ok(())
}

fn create_repo(root: &Path, i: usize) -> Result<(), String> {
    let repo_dir = |k: usize| root.join("repos").join(format!("lib{k}"));
    let dir = repo_dir(i);
    std::fs::create_dir_all(&dir).map_err(|e| e.to_string())?;
    let toml = repo_toml(root, i, "0.1.0");
    let toml_path = dir.join("Veryl.toml");
    fsutil::write_file(&toml_path, toml.as_bytes());
    let ign = dir.join(".gitignore");
    fsutil::write_file(&ign, b"Veryl.lock\n");
    let git = Git::init(&dir).map_err(|e| e.to_string())?;
    git.add(&toml_path).map_err(|e| e.to_string())?;
    git.add(&ign).map_err(|e| e.to_string())?;
    git.commit("Add Veryl.toml").map_err(|e| e.to_string())?;
    let mut md = Metadata::load(&toml_path).map_err(|e| e.to_string())?;
    md.publish().map_err(|e| format!("publish lib{i}: {e}"))?;
    Ok(())
}

fn publish(dir: &Path, bump: u8) -> Result<(), String> {
    let mut md = Metadata::load(dir.join("Veryl.toml")).map_err(|e| e.to_string())?;
    let kind = match bump {
        0 => BumpKind::Patch,
        1 => BumpKind::Minor,
        _ => BumpKind::Major,
    };
    md.bump_version(kind).map_err(|e| e.to_string())?;
    md.publish().map_err(|e| e.to_string())?;
    Ok(())
}

fn bump(v: &Version, b: u8) -> Version {
    match b {
        0 => Version::new(v.major, v.minor, v.patch + 1),
        1 => Version::new(v.major, v.minor + 1, 0),
        _ => Version::new(v.major + 1, 0, 0),
    }
}

/// Reference resolver: locked release if it still satisfies the requirement
/// (the highest such), else the highest published release that does.
fn model_resolve(w: &World, force: bool) -> Result<BTreeSet<(usize, Version)>, String> {
    let mut out: BTreeSet<(usize, Version)> = BTreeSet::new();
    let mut queue: Vec<(usize, String)> = w.deps.values().cloned().collect();
    // Two root dependencies that resolve to the same release are rejected ("conflicts with").
    let mut root_picks = BTreeSet::new();
    for (repo, req_s) in w.deps.values() {
        let req = VersionReq::parse(req_s).map_err(|e| e.to_string())?;
        let locked = if force { None } else { w.locked.iter().filter(|(r, v)| r == repo && req.matches(v)).map(|(_, v)| v.clone()).max() };
        let pick = match locked {
            Some(v) => Some(v),
            None => w.versions[*repo].iter().filter(|v| req.matches(v)).max().cloned(),
        };
        if let Some(v) = pick
            && !root_picks.insert((*repo, v))
        {
            return Err(format!("two root dependencies resolve to the same release of lib{repo}"));
        }
    }
    let mut seen: BTreeSet<(usize, String)> = BTreeSet::new();
    while let Some((repo, req_s)) = queue.pop() {
        if !seen.insert((repo, req_s.clone())) {
            continue;
        }
        let req = VersionReq::parse(&req_s).map_err(|e| e.to_string())?;
        let locked = if force { None } else { w.locked.iter().filter(|(r, v)| *r == repo && req.matches(v)).map(|(_, v)| v.clone()).max() };
        let pick = match locked {
            Some(v) => v,
            None => w.versions[repo].iter().filter(|v| req.matches(v)).max().cloned().ok_or_else(|| format!("no release of lib{repo} matches {req_s}"))?,
        };
        out.insert((repo, pick));
        for (r, q) in INNER[repo] {
            queue.push((*r, q.to_string()));
        }
    }
    Ok(out)
}

#[derive(Debug)]
struct Observed {
    table: BTreeSet<(usize, Version)>,
    names: Vec<String>,
    modified: bool,
    second_modified: bool,
    reload_equal: bool,
}

fn observe_update(main_toml: PathBuf, force: bool, crash: Option<(usize, Option<u64>)>) -> Result<Observed, String> {
    let mut md = Metadata::load(&main_toml).map_err(|e| format!("load: {e}"))?;
    let lock_path = md.lockfile_path.clone();
    let table_of = |lf: &Lockfile| -> (BTreeSet<(usize, Version)>, Vec<String>) {
        let mut t = BTreeSet::new();
        let mut names = vec![];
        for l in lf.projects() {
            names.push(l.name.clone());
            if let LockSource::Repository(r) = &l.source {
                let repo: usize = r.project.trim_start_matches("lib").parse().unwrap_or(99);
                t.insert((repo, r.version.clone()));
            }
        }
        (t, names)
    };
    if let Some((gate, prefix)) = crash {
        // dies inside Lockfile::save at the chosen atomic-write gate
        let n = std::rc::Rc::new(std::cell::Cell::new(0usize));
        let n2 = n.clone();
        sim::set_thread_handler(Some(Box::new(move |ev| {
            if ev.path.ends_with("Veryl.lock") && ev.kind.starts_with("aw.") {
                let k = n2.get();
                n2.set(k + 1);
                if k == gate {
                    return match prefix {
                        Some(p) if ev.kind == "aw.data" => Verdict::CrashPrefix(p.min(ev.len)),
                        _ => Verdict::Crash,
                    };
                }
            }
            Verdict::Go
        })));
        let r = std::panic::catch_unwind(std::panic::AssertUnwindSafe(|| md.update_lockfile()));
        sim::set_thread_handler(None);
        return match r {
            Err(p) if p.downcast_ref::<sim::SimCrash>().is_some() => Err("crashed".into()),
            Err(_) => Err("panic".into()),
            Ok(Err(e)) => Err(format!("update: {e}")),
            Ok(Ok(())) => Err("no-crash".into()),
        };
    }
    // the lock table as the resolver walks it: per repository, the locked releases in list order
    let ordered = |lf: &Lockfile| -> Vec<(String, Vec<String>)> {
        let mut v: Vec<(String, Vec<String>)> = lf
            .lock_table
            .iter()
            .map(|(k, locks)| {
                (
                    format!("{k:?}"),
                    locks.iter().map(|l| if let LockSource::Repository(r) = &l.source { r.version.to_string() } else { l.name.clone() }).collect(),
                )
            })
            .collect();
        v.sort();
        v
    };
    let (modified, in_memory) = if lock_path.exists() {
        let mut lf = Lockfile::load(&md).map_err(|e| format!("lockfile load: {e}"))?;
        let m = lf.update(&md, force).map_err(|e| format!("update: {e}"))?;
        if m {
            lf.save(&lock_path).map_err(|e| format!("save: {e}"))?;
        }
        (m, ordered(&lf))
    } else {
        let mut lf = Lockfile::new(&md).map_err(|e| format!("update: {e}"))?;
        lf.save(&lock_path).map_err(|e| format!("save: {e}"))?;
        (true, ordered(&lf))
    };
    let lf = Lockfile::load(&md).map_err(|e| format!("reload: {e}"))?;
    let reloaded_same_table = ordered(&lf) == in_memory;
    let (table, names) = table_of(&lf);
    // save -> load round trip: write what was loaded to a side file, load it again
    let mut lf2 = Lockfile::load(&md).map_err(|e| format!("reload: {e}"))?;
    let side = lock_path.with_extension("roundtrip");
    lf2.save(&side).map_err(|e| format!("save: {e}"))?;
    let a = std::fs::read_to_string(&lock_path).unwrap_or_default();
    let b = std::fs::read_to_string(&side).unwrap_or_default();
    let _ = std::fs::remove_file(&side);
    // an update with unchanged declarations reports no modification
    let mut lf3 = Lockfile::load(&md).map_err(|e| format!("reload: {e}"))?;
    let second_modified = lf3.update(&md, false).map_err(|e| format!("second update: {e}"))?;
    Ok(Observed { table, names, modified, second_modified, reload_equal: a == b && reloaded_same_table })
}

pub struct Outcome {
    pub violation: Option<(String, String)>,
    pub counters: Counters,
    pub harness_error: Option<String>,
}

pub fn run(sc: &Scenario) -> Outcome {
    let mut counters = Counters::default();
    // Outside /verif: veryl's Git::init adopts an enclosing git repository instead of
    // creating a new one, so the simulated repositories must not live inside a work tree.
    let scratch_root = std::env::var("VERIF_DEPSIM_SCRATCH").unwrap_or_else(|_| "/tmp/verif-depsim-scratch".to_string());
    let scratch = Scratch::fixed_in(&scratch_root, fsutil::hash_u64(format!("{sc:?}").as_bytes()) ^ 0x31);
    if std::process::Command::new("git").arg("-C").arg(&scratch.path).arg("rev-parse").arg("--show-toplevel").output().map(|o| o.status.success()).unwrap_or(false) {
        return Outcome { violation: None, counters, harness_error: Some(format!("scratch directory {} lies inside a git work tree", scratch.path.display())) };
    }
    let mut w = World { scratch, versions: vec![vec![Version::new(0, 1, 0)]; NREPOS], deps: BTreeMap::new(), locked: BTreeSet::new() };
    std::fs::create_dir_all(w.cache()).unwrap();
    std::fs::create_dir_all(w.main_dir()).unwrap();
    // repositories are created leaf first (publishing resolves nothing, but keep it tidy)
    for i in [2usize, 1, 0, 3] {
        let root = w.scratch.path.clone();
        let r = on_thread(w.cache(), move || create_repo(&root, i));
        match r {
            Ok(Ok(())) => {}
            Ok(Err(e)) | Err(e) => return Outcome { violation: None, counters, harness_error: Some(format!("create lib{i}: {e}")) },
        }
    }
    for (n, r, q) in &sc.initial_deps {
        w.deps.insert(n.clone(), (*r, q.clone()));
    }
    w.write_main_toml();
    let main_toml = w.main_dir().join("Veryl.toml");

    for (si, step) in sc.steps.iter().enumerate() {
        match step {
            Step::Publish { repo, bump: b } => {
                let dir = w.repo_dir(*repo);
                let b2 = *b;
                match on_thread(w.cache(), move || publish(&dir, b2)) {
                    Ok(Ok(())) => {
                        let last = w.versions[*repo].iter().max().unwrap().clone();
                        w.versions[*repo].push(bump(&last, *b));
                        counters.inc("step.publish");
                    }
                    Ok(Err(e)) | Err(e) => return Outcome { violation: None, counters, harness_error: Some(format!("publish: {e}")) },
                }
            }
            Step::Backport { repo } => {
                // a release line older than the newest one gets a new patch release
                let mut max = w.versions[*repo].iter().max().unwrap().clone();
                let mut older: Option<Version> = w.versions[*repo].iter().filter(|v| (v.major, v.minor) != (max.major, max.minor)).max().cloned();
                if older.is_none() {
                    // only one release line so far: open a newer one first
                    let dir = w.repo_dir(*repo);
                    match on_thread(w.cache(), move || publish(&dir, 1)) {
                        Ok(Ok(())) => {
                            older = Some(max.clone());
                            max = bump(&max, 1);
                            w.versions[*repo].push(max.clone());
                        }
                        Ok(Err(e)) | Err(e) => return Outcome { violation: None, counters, harness_error: Some(format!("publish: {e}")) },
                    }
                }
                let Some(line) = older else { continue };
                let patch = w.versions[*repo].iter().filter(|v| (v.major, v.minor) == (line.major, line.minor)).map(|v| v.patch).max().unwrap() + 1;
                let bp = Version::new(line.major, line.minor, patch);
                let (root, r, bps, maxs) = (w.scratch.path.clone(), *repo, bp.to_string(), max.to_string());
                match on_thread(w.cache(), move || set_version(&root, r, &bps, true).and_then(|_| set_version(&root, r, &maxs, false))) {
                    Ok(Ok(())) => {
                        w.versions[*repo].push(bp);
                        counters.inc("step.publish_backport");
                    }
                    Ok(Err(e)) | Err(e) => return Outcome { violation: None, counters, harness_error: Some(format!("backport: {e}")) },
                }
            }
            Step::SetDep { name, repo, req } => {
                w.deps.insert(name.clone(), (*repo, req.clone()));
                w.write_main_toml();
                counters.inc(if *name != format!("lib{repo}") { "step.set_dep_alias" } else { "step.set_dep" });
            }
            Step::RemoveDep { name } => {
                if w.deps.len() > 1 && w.deps.remove(name).is_some() {
                    w.write_main_toml();
                    counters.inc("step.remove_dep");
                }
            }
            Step::DeleteUserCache => {
                let _ = std::fs::remove_dir_all(w.cache());
                std::fs::create_dir_all(w.cache()).unwrap();
                counters.inc("step.delete_user_cache");
            }
            Step::BuildCrash { gate, prefix } => {
                let before = std::fs::read(w.main_dir().join("Veryl.lock")).ok();
                let (mt, g, p) = (main_toml.clone(), *gate, *prefix);
                let r = on_thread(w.cache(), move || observe_update(mt, false, Some((g, p))));
                let after = std::fs::read(w.main_dir().join("Veryl.lock")).ok();
                match r {
                    Ok(Err(e)) if e == "crashed" => {
                        counters.inc("fault.crash_in_lockfile_save");
                        if before != after {
                            return Outcome { violation: Some(("lockfile-torn-by-crash".into(), format!("step {si}: a crash at atomic-write gate {gate} changed Veryl.lock (before {:?} bytes, after {:?} bytes)", before.map(|b| b.len()), after.map(|b| b.len())))), counters, harness_error: None };
                        }
                    }
                    Ok(Err(e)) if e == "panic" => {
                        return Outcome { violation: Some(("panic".into(), format!("step {si}: update panicked"))), counters, harness_error: None };
                    }
                    _ => counters.inc("fault.crash_not_reached_no_write"),
                }
            }
            Step::Build | Step::ForceUpdate => {
                let force = matches!(step, Step::ForceUpdate);
                let expect = model_resolve(&w, force);
                let mt = main_toml.clone();
                let r = on_thread(w.cache(), move || observe_update(mt, force, None));
                let got = match r {
                    Ok(x) => x,
                    Err(p) => return Outcome { violation: Some(("panic".into(), format!("step {si} {step:?}: {p}"))), counters, harness_error: None },
                };
                counters.inc(if force { "step.force_update" } else { "step.build" });
                match (got, expect) {
                    (Err(e), Err(m)) => {
                        counters.inc("resolve.expected_failure");
                        let _ = (e, m);
                    }
                    (Err(e), Ok(m)) if e.starts_with("second update:") && {
                        let repos: Vec<usize> = m.iter().map(|x| x.0).collect();
                        repos.windows(2).any(|p| p[0] == p[1])
                    } =>
                    {
                        // the recorded finding in its other form: with one project locked at two
                        // releases the unchanged second update re-resolves a requirement to the
                        // other lock, here into a root conflict instead of a modification report
                        return Outcome { violation: Some(("unchanged-update-fails:two-locked-releases-of-one-project".into(), format!("step {si} {step:?}: `{e}` (expected lock table {m:?})"))), counters, harness_error: None };
                    }
                    (Err(e), Ok(m)) => {
                        return Outcome { violation: Some(("resolution-fails".into(), format!("step {si} {step:?}: failed with `{e}` but releases exist: expected {m:?}"))), counters, harness_error: None };
                    }
                    (Ok(o), Err(m)) => {
                        return Outcome { violation: Some(("resolution-succeeds-unexpectedly".into(), format!("step {si} {step:?}: resolved {:?} but the model says: {m}", o.table))), counters, harness_error: None };
                    }
                    (Ok(o), Ok(m)) => {
                        if o.table != m {
                            let class = if o.table.iter().zip(m.iter()).any(|(a, b)| a.0 == b.0 && a.1 < b.1) { "not-best-version" } else { "lock-table-differs" };
                            return Outcome { violation: Some((class.into(), format!("step {si} {step:?}: lock table {:?} but the reference resolver gives {:?} (published: {:?}; previously locked: {:?}; declared: {:?})", o.table, m, w.versions, w.locked, w.deps))), counters, harness_error: None };
                        }
                        let mut names = o.names.clone();
                        names.sort();
                        names.dedup();
                        if names.len() != o.names.len() {
                            return Outcome { violation: Some(("duplicate-project-name".into(), format!("step {si}: names {:?}", o.names))), counters, harness_error: None };
                        }
                        if !o.reload_equal {
                            return Outcome { violation: Some(("save-load-roundtrip".into(), format!("step {si}: saving and reloading the lockfile does not give the same lock table (bytes of a re-save, or the order in which the resolver walks the locked releases of a repository)"))), counters, harness_error: None };
                        }
                        if o.second_modified {
                            let repos: Vec<usize> = o.table.iter().map(|x| x.0).collect();
                            let two = repos.windows(2).any(|p| p[0] == p[1]);
                            let class = if two { "unchanged-update-reports-modified:two-locked-releases-of-one-project" } else { "unchanged-update-reports-modified" };
                            return Outcome { violation: Some((class.into(), format!("step {si}: a second update with unchanged declarations reports a modification (lock table {:?})", o.table))), counters, harness_error: None };
                        }
                        if o.modified {
                            counters.inc("resolve.lockfile_modified");
                        }
                        if m.iter().any(|(r, v)| w.versions[*r].iter().max() != Some(v)) {
                            counters.inc("resolve.kept_locked_or_older_than_latest");
                        }
                        if m.len() > w.deps.len() {
                            counters.inc("resolve.transitive_or_multi_version");
                        }
                        w.locked = m;
                    }
                }
            }
        }
    }
    Outcome { violation: None, counters, harness_error: None }
}

pub fn gen_scenario(seed: u64) -> Scenario {
    let mut rng = Rng::new(seed);
    let mut initial = vec![];
    let n0 = 1 + rng.below(3);
    let mut used = BTreeSet::new();
    for _ in 0..n0 {
        let repo = rng.below(NREPOS);
        if used.insert(repo) {
            initial.push((format!("lib{repo}"), repo, rng.pick(&REQS[..4]).to_string()));
        }
    }
    let mut steps = vec![];
    // often start from a history that already has two release lines
    if rng.chance(1, 2) {
        steps.push(Step::Publish { repo: rng.below(NREPOS), bump: 1 + rng.below(2) as u8 });
    }
    steps.push(Step::Build);
    let n = 3 + rng.below(8);
    for _ in 0..n {
        let s = match rng.below(100) {
            0..=17 => Step::Publish { repo: rng.below(NREPOS), bump: rng.below(3) as u8 },
            18..=29 => Step::Backport { repo: rng.below(NREPOS) },
            30..=44 => {
                let repo = rng.below(NREPOS);
                let name = if rng.chance(1, 4) { format!("alias{}", rng.below(2)) } else { format!("lib{repo}") };
                Step::SetDep { name, repo, req: rng.pick(&REQS).to_string() }
            }
            45..=49 => Step::RemoveDep { name: format!("lib{}", rng.below(NREPOS)) },
            50..=74 => Step::Build,
            75..=84 => Step::ForceUpdate,
            85..=89 => Step::DeleteUserCache,
            _ => Step::BuildCrash { gate: rng.below(3), prefix: if rng.chance(1, 2) { Some(rng.below(40) as u64) } else { None } },
        };
        let was_backport = matches!(s, Step::Backport { .. });
        steps.push(s);
        if was_backport && rng.chance(2, 3) {
            // resolve afresh while Veryl.pub is out of order
            steps.push(if rng.chance(1, 2) { Step::ForceUpdate } else { Step::DeleteUserCache });
            steps.push(Step::Build);
        }
    }
    steps.push(Step::Build);
    Scenario { initial_deps: initial, steps }
}

fn main() {
    let args: Vec<String> = std::env::args().collect();
    for (k, v) in [("GIT_AUTHOR_NAME", "veryl"), ("GIT_AUTHOR_EMAIL", "veryl"), ("GIT_COMMITTER_NAME", "veryl"), ("GIT_COMMITTER_EMAIL", "veryl")] {
        unsafe { std::env::set_var(k, v) };
    }
    std::panic::set_hook(Box::new(|_| {}));
    if args.len() >= 3 && args[1] == "--replay" {
        let text = std::fs::read_to_string(&args[2]).expect("read replay");
        let v: serde_json::Value = serde_json::from_str(&text).expect("parse replay");
        let sc: Scenario = serde_json::from_value(v["scenario"].clone()).expect("scenario");
        let o = run(&sc);
        if let Some(e) = o.harness_error {
            eprintln!("harness error: {e}");
            std::process::exit(2);
        }
        match o.violation {
            Some((c, d)) => {
                if std::env::var("VERIF_REPLAY_CHILD").is_err() {
                    println!("replayed [{c}]: {d}");
                    println!("VIOLATION property=C31 replay={}", args[2]);
                }
                std::process::exit(1);
            }
            None => {
                println!("replay did not reproduce a violation");
                std::process::exit(0);
            }
        }
    }
    let tier = args.get(1).cloned().unwrap_or_else(simcore::evidence::tier);
    let seed = verif_seed();
    let n: usize = std::env::var("VERIF_N").ok().and_then(|x| x.parse().ok()).unwrap_or(if tier == "thorough" { 1200 } else { 60 });
    let start = std::time::Instant::now();
    println!("depsim C31 tier={tier} VERIF_SEED={seed} histories={n}");
    let jobs = simcore::pool::workers();
    let results = simcore::pool::par_map(n, jobs, |i| {
        let sc = gen_scenario(mix(seed, "C31", i as u64));
        let o = run(&sc);
        (sc, o)
    });
    let mut counters = Counters::default();
    let mut distinct = BTreeSet::new();
    let mut samples = vec![];
    let mut found = vec![];
    let mut exit = 0;
    for (i, (sc, o)) in results.into_iter().enumerate() {
        counters.merge(&o.counters);
        if let Some(e) = o.harness_error {
            eprintln!("harness error: {e}");
            exit = 2;
            continue;
        }
        if o.counters.get("resolve.kept_locked_or_older_than_latest") > 0 || o.counters.get("resolve.transitive_or_multi_version") > 0 {
            distinct.insert(fsutil::hash_u64(format!("{sc:?}").as_bytes()));
        }
        if i < 3 {
            samples.push(json!({"initial_deps": sc.initial_deps, "steps": sc.steps}));
        }
        if let Some((c, d)) = o.violation {
            found.push((sc, c, d));
        }
    }
    let known = simcore::evidence::load_known("C31");
    let mut nviol = 0u64;
    let mut known_hits = 0u64;
    let mut seen = BTreeSet::new();
    let mut printed = BTreeSet::new();
    for (sc, class, detail) in found {
        if let Some(k) = known.iter().find(|k| k.status == "known" && class.contains(&k.key)) {
            known_hits += 1;
            if printed.insert(k.key.clone()) {
                println!("KNOWN-FINDING: property=C31 {}", k.what);
            }
            continue;
        }
        if !seen.insert(class.clone()) {
            continue;
        }
        let mut best = sc.clone();
        let same = |c: &Scenario| run(c).violation.is_some_and(|v| v.0 == class);
        let mut budget = 30;
        let mut i = 0;
        while i < best.steps.len() && budget > 0 {
            let mut cand = best.clone();
            cand.steps.remove(i);
            budget -= 1;
            if same(&cand) {
                best = cand;
            } else {
                i += 1;
            }
        }
        let detail = run(&best).violation.map(|v| v.1).unwrap_or(detail);
        let path = simcore::evidence::write_replay("C31", &format!("{seed}-{nviol}"), &json!({"property": "C31", "violation_class": class, "violation": detail, "scenario": best, "seed": seed}));
        let child = std::process::Command::new(std::env::current_exe().unwrap()).arg("--replay").arg(&path).env("VERIF_REPLAY_CHILD", "1").output();
        if child.map(|o| o.status.code() == Some(1)).unwrap_or(false) {
            println!("violation [{class}]: {detail}");
            println!("VIOLATION property=C31 replay={}", path.display());
            nviol += 1;
            exit = 1;
        } else {
            eprintln!("harness error: C31 violation did not replay in a fresh process ({}): {detail}", path.display());
            exit = exit.max(2);
        }
    }
    for p in ["step.publish", "step.publish_backport", "step.build", "step.force_update", "resolve.kept_locked_or_older_than_latest", "resolve.transitive_or_multi_version", "fault.crash_in_lockfile_save"] {
        if counters.get(p) == 0 {
            eprintln!("harness error: reach probe {p} stayed at zero");
            exit = exit.max(2);
        }
    }
    let wall = start.elapsed().as_secs_f64();
    let mut extra = serde_json::Map::new();
    extra.insert("probes".into(), counters.to_json());
    extra.insert("runs_per_hour".into(), json!((n as f64 / wall * 3600.0) as u64));
    extra.insert("known_finding_hits".into(), json!(known_hits));
    extra.insert("components".into(), json!({"real": ["Metadata::load/publish/bump_version, Lockfile::{new,load,update,save} (gen_locks, resolve_version*, name suffixing, uuid dedup)", "gitoxide clone/fetch/checkout of local file:// repositories created with veryl's own Git API", "the user cache (resolve/, dependencies/) and its directory locks"], "simulated": ["release histories, declaration edits, user-cache deletion, crash inside Lockfile::save (atomic-write gates)"], "not_covered": ["network / GitHub URLs", "hash-seed variation of the resolving process (in-process engine)"]}));
    Evidence {
        property_id: "C31".into(),
        tier: tier.clone(),
        seed,
        level: "exploration".into(),
        evaluations: n as u64,
        distinct_nontrivial: distinct.len() as u64,
        rule: "four dependency repositories (lib0->lib2, lib1->lib2 diamond, lib3->lib1) with evolving release lists x seeded histories of 5-12 steps (publish patch/minor/major, publish a backport of an older line, set/alias/remove a root dependency with one of 9 requirement strings, build, forced update, delete user cache, crash at an atomic-write gate of Veryl.lock); after every build/update the lock table must equal the reference resolver (locked release if it still matches, else highest published match), names are distinct, save->load->save is byte-stable, a second update reports no modification; a crash leaves Veryl.lock byte-identical. distinct_nontrivial = distinct histories in which a locked (non-latest) release was kept or a transitive / second version was resolved".into(),
        samples,
        extra,
        assumptions: vec!["dependency declarations inside the dependency repositories are fixed at creation".into()],
        wall_s: wall,
        violations: nviol,
    }
    .write();
    println!("C31: histories={n} distinct={} violations={nviol} known={known_hits} wall={wall:.1}s", distinct.len());
    fsutil::cleanup_scratch_root();
    std::process::exit(exit);
}
