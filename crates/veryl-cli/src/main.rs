//! The repository's real `veryl` CLI (`crates/veryl/src/main.rs`, included
//! verbatim from the working tree) built with the `verif` hooks on, plus two
//! harness-owned seams that need no change in the repository:
//!  * `getrandom` override: std's `RandomState` keys (HashMap iteration order)
//!    become a function of `VERYL_SIM_HASHSEED`;
//!  * an initial `start` gate so the simulator owns the process from its
//!    first instruction of interest.

#[allow(clippy::all)]
mod real {
    include!("/repo/crates/veryl/src/main.rs");
    pub fn run() -> miette::Result<std::process::ExitCode> {
        main()
    }
}

static COUNTER: std::sync::atomic::AtomicU64 = std::sync::atomic::AtomicU64::new(0);

#[unsafe(no_mangle)]
pub unsafe extern "C" fn getrandom(buf: *mut u8, len: usize, flags: u32) -> isize {
    let var = unsafe { libc::getenv(c"VERYL_SIM_HASHSEED".as_ptr()) };
    if var.is_null() {
        return unsafe { libc::syscall(libc::SYS_getrandom, buf, len, flags) as isize };
    }
    let mut seed: u64 = 0;
    let mut p = var as *const u8;
    unsafe {
        while *p != 0 {
            seed = seed.wrapping_mul(10).wrapping_add((*p - b'0') as u64);
            p = p.add(1);
        }
    }
    let mut state = seed ^ COUNTER.fetch_add(1, std::sync::atomic::Ordering::Relaxed).wrapping_mul(0x9e3779b97f4a7c15);
    for i in 0..len {
        state = state.wrapping_add(0x9e3779b97f4a7c15);
        let mut z = state;
        z = (z ^ (z >> 30)).wrapping_mul(0xbf58476d1ce4e5b9);
        z = (z ^ (z >> 27)).wrapping_mul(0x94d049bb133111eb);
        z ^= z >> 31;
        unsafe { *buf.add(i) = z as u8 };
    }
    len as isize
}

fn main() -> miette::Result<std::process::ExitCode> {
    let _ = veryl_path::sim::point("start", std::path::Path::new(""));
    real::run()
}
