//! fragsim — C06: restoring a cached fragment reproduces the analyzer state.
//!
//! A fragment outlives the analyzer context that wrote it. Three "processes"
//! (threads with fresh thread-local analyzer tables) are simulated: A captures
//! every file's pass-1 fragment in one context (ID counters pre-advanced by p1
//! filler files, files in order pi1) and serialises it; B restores a seeded
//! subset in another context (pre-advance p2, order pi2) and parses the rest;
//! C parses everything in B's context. B and C must be indistinguishable:
//! table dumps byte-equal, diagnostics of every later pass equal, emitted code
//! of the parsed files equal. A long-lived variant runs B on a thread that has
//! already analysed and dropped earlier versions of the files.

use serde::{Deserialize, Serialize};
use serde_json::json;
use simcore::evidence::{Counters, Evidence};
use simcore::rng::{mix, verif_seed, Rng};
use std::collections::{BTreeMap, BTreeSet};
use std::path::{Path, PathBuf};
use veryl_analyzer::fragment_cache::{self, Fragment};
use veryl_analyzer::ir as air;
use veryl_analyzer::{attribute_table, scope, symbol_table, type_dag, unsafe_table, Analyzer, Context};
use veryl_emitter::Emitter;
use veryl_metadata::Metadata;
use veryl_parser::{resource_table, Parser};

#[derive(Clone, Debug, Serialize, Deserialize)]
pub struct Scenario {
    /// (file name, text)
    pub files: Vec<(String, String)>,
    /// capture context: filler files analysed first, processing order
    pub p1: usize,
    pub order1: Vec<usize>,
    /// restore context
    pub p2: usize,
    pub order2: Vec<usize>,
    /// indices of files restored from their fragment in context B
    pub restore: Vec<usize>,
    /// B runs on a thread that already analysed and dropped every file once
    pub long_lived: bool,
    /// files removed from the project between the capturing and the restoring build
    #[serde(default)]
    pub absent2: Vec<usize>,
    /// files edited between the two builds: (index, text in the restoring build); never restored
    #[serde(default)]
    pub edits2: Vec<(usize, String)>,
}

fn filler(i: usize) -> (String, String) {
    (
        format!("zz_filler{i}.veryl"),
        format!(
            "package FillerPkg{i} {{\n    const F{i}: u32 = {};\n    struct S{i} {{\n        a: logic<{}>,\n    }}\n}}\nmodule Filler{i} (\n    o: output logic<4>,\n) {{\n    assign o = {};\n}}\n",
            i + 1,
            i + 2,
            i % 7
        ),
    )
}

#[derive(Default, Clone, PartialEq, Debug)]
struct State {
    symbol: String,
    tokens: String,
    scopes: String,
    dag: String,
    file_dag: String,
    attrs: String,
    unsafes: String,
    post1: Vec<String>,
    pass2: Vec<String>,
    emitted: BTreeMap<String, String>,
    restored: usize,
    restore_failed: Vec<String>,
}

enum Mode {
    /// parse everything, capture fragments
    Capture,
    /// restore `restore` from `frags`, parse the rest
    Restore(BTreeMap<usize, Vec<u8>>),
    /// parse everything
    Reference,
}

struct Out {
    state: Option<State>,
    frags: BTreeMap<usize, Result<Vec<u8>, String>>,
    panic: Option<String>,
}

fn run_context(files: Vec<(String, String)>, fillers: usize, order: Vec<usize>, mode: Mode, parsed_only: BTreeSet<usize>, long_lived: bool) -> Out {
    let h = std::thread::Builder::new()
        .stack_size(64 << 20)
        .spawn(move || {
            let r = std::panic::catch_unwind(std::panic::AssertUnwindSafe(|| {
                let metadata = Metadata::create_default("prj").unwrap();
                let analyzer = Analyzer::new(&metadata);
                let mut frags = BTreeMap::new();
                let mut st = State::default();
                let mut keep = vec![];
                if long_lived {
                    // an earlier life of this thread: analyse every file, then drop it again
                    for (name, text) in &files {
                        if let Ok(p) = Parser::parse(text, &name.as_str()) {
                            let _ = analyzer.analyze_pass1("prj", &p.veryl);
                            keep.push(p);
                        }
                    }
                    let _ = Analyzer::analyze_post_pass1();
                    for (name, _) in &files {
                        if let Some(id) = resource_table::get_path_id(PathBuf::from(name)) {
                            Analyzer::drop_file(id, Some("prj".into()));
                        }
                    }
                }
                for i in 0..fillers {
                    let (n, t) = filler(i);
                    let p = Parser::parse(&t, &n.as_str()).unwrap();
                    let _ = analyzer.analyze_pass1("prj", &p.veryl);
                    keep.push(p);
                }
                let mut parsed: Vec<(usize, veryl_parser::Parser)> = vec![];
                let mut post_errors = vec![];
                for &i in &order {
                    let (name, text) = &files[i];
                    if let Mode::Restore(f) = &mode
                        && let Some(bytes) = f.get(&i)
                    {
                        match Fragment::from_bytes(bytes) {
                            Ok(fr) => {
                                scope::set_project("prj".into(), true);
                                match fragment_cache::restore(&fr, "prj".into()) {
                                    Ok(()) => {
                                        st.restored += 1;
                                        continue;
                                    }
                                    Err(e) => {
                                        // the allowed clean failure: drop and parse
                                        st.restore_failed.push(format!("{name}: {e}"));
                                        Analyzer::drop_file(resource_table::insert_path(Path::new(name)), Some("prj".into()));
                                    }
                                }
                            }
                            Err(e) => st.restore_failed.push(format!("{name}: decode {e}")),
                        }
                    }
                    let wm = fragment_cache::watermark();
                    match Parser::parse(text, &name.as_str()) {
                        Ok(p) => {
                            let errs = analyzer.analyze_pass1("prj", &p.veryl);
                            if matches!(mode, Mode::Capture) {
                                // the build pipeline caches only files whose pass1 is clean
                                if errs.is_empty() {
                                    let r = fragment_cache::capture(Path::new(name), text, &wm).map_err(|e| e.to_string()).and_then(|f| f.to_bytes().map_err(|e| e.to_string()));
                                    frags.insert(i, r);
                                } else {
                                    frags.insert(i, Err("pass1 diagnostics".into()));
                                }
                            }
                            post_errors.extend(errs.iter().map(|e| format!("pass1 {name}: {e}")));
                            parsed.push((i, p));
                        }
                        Err(e) => post_errors.push(format!("parse {name}: {e}")),
                    }
                }
                let e1 = Analyzer::analyze_post_pass1();
                let where_ = |e: &veryl_analyzer::AnalyzerError| {
                    e.token_source().get_path().and_then(resource_table::get_path_value).map(|p| p.to_string_lossy().to_string()).unwrap_or_default()
                };
                st.post1 = post_errors.into_iter().chain(e1.iter().map(|e| format!("{e} @{}", where_(e)))).collect();
                st.post1.sort();
                st.symbol = symbol_table::dump();
                st.tokens = scope::dump_tokens();
                // scope::dump_owned_scopes is test-only in the analyzer crate; the scope tree is
                // observed through the token dump and through everything resolved afterwards.
                st.scopes = String::new();
                st.dag = type_dag::dump();
                st.file_dag = type_dag::dump_file();
                st.attrs = attribute_table::dump();
                st.unsafes = unsafe_table::dump();
                // pass 2 and emission for the files that context B parses
                let mut ctx = Context::default();
                let mut ir = air::Ir::default();
                for (i, p) in &parsed {
                    if !parsed_only.is_empty() && !parsed_only.contains(i) {
                        continue;
                    }
                    let errs = analyzer.analyze_pass2(&p.veryl, &mut ctx, Some(&mut ir));
                    // attributed to the file the diagnostic points into (an error inside ModB may be
                    // found while elaborating an instance of it from another file, and is reported once)
                    st.pass2.extend(errs.iter().map(|e| format!("{}: {e}", where_(e))));
                }
                st.pass2.sort();
                st.pass2.dedup();
                for (i, p) in &parsed {
                    if !parsed_only.is_empty() && !parsed_only.contains(i) {
                        continue;
                    }
                    let (name, text) = &files[*i];
                    let src = PathBuf::from(name);
                    let dst = src.with_extension("sv");
                    let map = src.with_extension("sv.map");
                    let mut em = Emitter::new(&metadata, "prj", &src, &dst, &map);
                    em.emit(&p.veryl, text);
                    st.emitted.insert(name.clone(), em.as_str().to_string());
                }
                (st, frags)
            }));
            match r {
                Ok((st, frags)) => Out { state: Some(st), frags, panic: None },
                Err(p) => Out {
                    state: None,
                    frags: BTreeMap::new(),
                    panic: Some(p.downcast_ref::<String>().cloned().or_else(|| p.downcast_ref::<&str>().map(|s| s.to_string())).unwrap_or("panic".into())),
                },
            }
        })
        .unwrap();
    h.join().unwrap_or(Out { state: None, frags: BTreeMap::new(), panic: Some("thread died".into()) })
}

pub struct Outcome {
    pub violation: Option<(String, String)>,
    pub restored: usize,
    pub noncacheable: usize,
    pub clean_restore_failures: usize,
    pub skipped: Option<&'static str>,
}

fn first_diff(a: &str, b: &str) -> String {
    for (i, (x, y)) in a.lines().zip(b.lines()).enumerate() {
        if x != y {
            return format!("line {i}: restored `{}` vs parsed `{}`", x.chars().take(160).collect::<String>(), y.chars().take(160).collect::<String>());
        }
    }
    format!("{} lines vs {}", a.lines().count(), b.lines().count())
}

pub fn run(sc: &Scenario) -> Outcome {
    let a = run_context(sc.files.clone(), sc.p1, sc.order1.clone(), Mode::Capture, BTreeSet::new(), false);
    let mut o = Outcome { violation: None, restored: 0, noncacheable: 0, clean_restore_failures: 0, skipped: None };
    if a.panic.is_some() {
        // the capturing analysis itself panics on this input: not a fragment matter
        o.skipped = Some("capture-context-panicked");
        return o;
    }
    let mut frags = BTreeMap::new();
    let order2: Vec<usize> = sc.order2.iter().copied().filter(|i| !sc.absent2.contains(i)).collect();
    let mut files2 = sc.files.clone();
    for (i, t) in &sc.edits2 {
        if *i < files2.len() {
            files2[*i].1 = t.clone();
        }
    }
    for i in sc.restore.iter().filter(|i| !sc.absent2.contains(i) && !sc.edits2.iter().any(|e| e.0 == **i)) {
        match a.frags.get(i) {
            Some(Ok(b)) => {
                frags.insert(*i, b.clone());
            }
            _ => o.noncacheable += 1,
        }
    }
    let parsed_in_b: BTreeSet<usize> = order2.iter().copied().filter(|i| !frags.contains_key(i)).collect();
    // The reference parses, analyses and emits everything; what is compared afterwards is
    // restricted to the files the restoring context really parsed.
    // On a long-lived thread the reference lives the same earlier life, so that the only
    // difference between the two contexts is restore-versus-parse.
    let c = run_context(files2.clone(), sc.p2, order2.clone(), Mode::Reference, BTreeSet::new(), sc.long_lived);
    let Some(cs) = c.state else {
        o.skipped = Some("reference-context-panicked");
        return o;
    };
    if sc.long_lived && std::env::var("FRAGSIM_OBSERVE_RESIDUE").is_ok() {
        // Not C06: does a thread that analysed and dropped the files before differ from a fresh one?
        if let Some(fs) = run_context(files2.clone(), sc.p2, order2.clone(), Mode::Reference, BTreeSet::new(), false).state {
            if fs.post1 != cs.post1 || fs.pass2 != cs.pass2 {
                eprintln!("RESIDUE diagnostics differ after drop_file for {:?}", sc.files.iter().map(|f| f.0.clone()).collect::<Vec<_>>());
            } else if fs.emitted != cs.emitted {
                eprintln!("RESIDUE emitted code differs after drop_file for {:?}", sc.files.iter().map(|f| f.0.clone()).collect::<Vec<_>>());
            }
        }
    }
    let b = run_context(files2.clone(), sc.p2, order2.clone(), Mode::Restore(frags.clone()), parsed_in_b.clone(), sc.long_lived);
    let Some(bs) = b.state else {
        o.violation = Some(("panic-on-restore".into(), format!("restoring context panicked: {}", b.panic.unwrap_or_default())));
        return o;
    };
    o.restored = bs.restored;
    o.clean_restore_failures = bs.restore_failed.len();
    if bs.post1 != cs.post1 {
        let only_b: Vec<&String> = bs.post1.iter().filter(|x| !cs.post1.contains(x)).collect();
        let only_c: Vec<&String> = cs.post1.iter().filter(|x| !bs.post1.contains(x)).collect();
        o.violation = Some(("post-pass1-diagnostics".into(), format!("only with restore: {only_b:?}; only when parsed: {only_c:?}")));
        return o;
    }
    let b_parsed: BTreeSet<String> = bs.emitted.keys().cloned().collect();
    let mut cs = cs;
    cs.pass2.retain(|l| b_parsed.iter().any(|n| l.starts_with(&format!("{n}: "))));
    // the same rule on both sides: an error located in a restored file (met while elaborating
    // an instance of it from a parsed file) is not part of the comparison, because the
    // all-parsed context's list is restricted to the parsed files' locations too
    let mut bs = bs;
    bs.pass2.retain(|l| b_parsed.iter().any(|n| l.starts_with(&format!("{n}: "))));
    cs.emitted.retain(|k, _| b_parsed.contains(k));
    if bs.pass2 != cs.pass2 {
        let only_b: Vec<&String> = bs.pass2.iter().filter(|x| !cs.pass2.contains(x)).collect();
        let only_c: Vec<&String> = cs.pass2.iter().filter(|x| !bs.pass2.contains(x)).collect();
        o.violation = Some(("pass2-diagnostics".into(), format!("only with restore: {only_b:?}; only when parsed: {only_c:?}")));
        return o;
    }
    if bs.emitted != cs.emitted {
        let f = bs.emitted.iter().find(|(k, v)| cs.emitted.get(*k) != Some(v)).map(|(k, _)| k.clone()).unwrap_or_default();
        o.violation = Some(("emitted-code".into(), format!("{f}: {}", first_diff(bs.emitted.get(&f).map(|s| s.as_str()).unwrap_or(""), cs.emitted.get(&f).map(|s| s.as_str()).unwrap_or("")))));
        return o;
    }
    // ID ranges coincide (restore reserves exactly the captured counts; both contexts lived the
    // same earlier life) unless a restore failed cleanly and the file was re-parsed.
    if bs.restore_failed.is_empty() {
        for (name, x, y) in [
            ("symbol_table", &bs.symbol, &cs.symbol),
            ("scope-tokens", &bs.tokens, &cs.tokens),
            ("owned-scopes", &bs.scopes, &cs.scopes),
            ("type_dag", &bs.dag, &cs.dag),
            ("file_dag", &bs.file_dag, &cs.file_dag),
            ("attribute_table", &bs.attrs, &cs.attrs),
            ("unsafe_table", &bs.unsafes, &cs.unsafes),
        ] {
            if x != y {
                o.violation = Some((format!("dump:{name}"), first_diff(x, y)));
                return o;
            }
        }
    }
    o
}

fn corpus() -> Vec<(String, String)> {
    let mut v = vec![];
    let dir = Path::new("/repo/testcases/veryl");
    let mut names: Vec<PathBuf> = std::fs::read_dir(dir).map(|r| r.flatten().map(|e| e.path()).collect()).unwrap_or_default();
    names.sort();
    for p in names {
        if p.extension().is_some_and(|e| e == "veryl")
            && let Ok(t) = std::fs::read_to_string(&p)
        {
            v.push((p.file_name().unwrap().to_string_lossy().to_string(), t));
        }
    }
    v
}

pub fn gen_scenario(seed: u64, corpus: &[(String, String)]) -> Scenario {
    let mut rng = Rng::new(seed);
    let mut variants: BTreeMap<String, Vec<String>> = BTreeMap::new();
    let files: Vec<(String, String)> = if rng.chance(1, 3) && !corpus.is_empty() {
        // 1-3 files of the repository's testcases (all declaration kinds)
        let n = 1 + rng.below(3);
        let mut idx: BTreeSet<usize> = BTreeSet::new();
        while idx.len() < n {
            idx.insert(rng.below(corpus.len()));
        }
        idx.into_iter().map(|i| corpus[i].clone()).collect()
    } else {
        let with_tests = rng.chance(1, 6);
        let g = wgen::gen_project(&mut rng, false, with_tests);
        for sl in g.units.iter().flat_map(|u| u.slots.iter()) {
            variants.insert(sl.path.trim_start_matches("src/").to_string(), sl.variants.iter().map(|v| v.to_string()).collect());
        }
        g.project.files.into_iter().map(|(k, v)| (k.trim_start_matches("src/").to_string(), v)).collect()
    };
    let n = files.len();
    let mut order1: Vec<usize> = (0..n).collect();
    let mut order2: Vec<usize> = (0..n).collect();
    if rng.chance(2, 3) {
        rng.shuffle(&mut order1);
    }
    if rng.chance(2, 3) {
        rng.shuffle(&mut order2);
    }
    let mut restore: Vec<usize> = (0..n).filter(|_| rng.chance(3, 5)).collect();
    if restore.is_empty() {
        restore.push(rng.below(n));
    }
    let p1 = rng.below(4);
    let p2 = rng.below(4);
    let long_lived = rng.chance(1, 4);
    // one build in three: some files were removed from the project in between
    let mut absent2: Vec<usize> = if n >= 2 && rng.chance(1, 3) { (0..n).filter(|_| rng.chance(1, 3)).collect() } else { vec![] };
    if absent2.len() == n {
        absent2.pop();
    }
    // edits between the builds: another variant of the file's slot
    let mut edits2 = vec![];
    for (i, (name, text)) in files.iter().enumerate() {
        if let Some(vs) = variants.get(name)
            && vs.len() > 1
            && rng.chance(1, 3)
        {
            let others: Vec<&String> = vs.iter().filter(|v| *v != text).collect();
            if !others.is_empty() {
                edits2.push((i, others[rng.below(others.len())].clone()));
            }
        }
    }
    Scenario { files, p1, order1, p2, order2, restore, long_lived, absent2, edits2 }
}

fn main() {
    let args: Vec<String> = std::env::args().collect();
    std::panic::set_hook(Box::new(|_| {}));
    if args.len() >= 3 && args[1] == "--replay" {
        let text = std::fs::read_to_string(&args[2]).expect("read replay");
        let v: serde_json::Value = serde_json::from_str(&text).expect("parse replay");
        let sc: Scenario = serde_json::from_value(v["scenario"].clone()).expect("scenario");
        match run(&sc).violation {
            Some((c, d)) => {
                if std::env::var("VERIF_REPLAY_CHILD").is_err() {
                    println!("replayed [{c}]: {d}");
                    println!("VIOLATION property=C06 replay={}", args[2]);
                }
                std::process::exit(1);
            }
            None => {
                println!("replay did not reproduce a violation");
                std::process::exit(0);
            }
        }
    }
    let tier = args.get(1).cloned().unwrap_or_else(simcore::evidence::tier);
    let seed = verif_seed();
    let n: usize = std::env::var("VERIF_N").ok().and_then(|x| x.parse().ok()).unwrap_or(if tier == "thorough" { 100000 } else { 2000 });
    let start = std::time::Instant::now();
    let corp = corpus();
    println!("fragsim C06 tier={tier} VERIF_SEED={seed} triples={n} corpus_files={}", corp.len());
    let jobs = simcore::pool::workers();
    let results = simcore::pool::par_map(n, jobs, |i| {
        let sc = gen_scenario(mix(seed, "C06", i as u64), &corp);
        let o = run(&sc);
        (sc, o)
    });
    let mut counters = Counters::default();
    let mut distinct = BTreeSet::new();
    let mut samples = vec![];
    let mut found = vec![];
    for (i, (sc, o)) in results.into_iter().enumerate() {
        if let Some(s) = o.skipped {
            counters.inc(&format!("skipped.{s}"));
            continue;
        }
        counters.add("fragments.restored", o.restored as u64);
        counters.add("fragments.refused_at_capture_or_uncacheable", o.noncacheable as u64);
        counters.add("fragments.clean_restore_failure", o.clean_restore_failures as u64);
        if sc.long_lived {
            counters.inc("context.long_lived_thread");
        }
        if sc.p1 != sc.p2 {
            counters.inc("context.different_id_offsets");
        }
        if sc.order1 != sc.order2 {
            counters.inc("context.different_file_order");
        }
        if !sc.absent2.is_empty() {
            counters.inc("context.files_removed_between_builds");
        }
        if !sc.edits2.is_empty() {
            counters.inc("context.files_edited_between_builds");
        }
        if o.restored > 0 && (sc.p1 != sc.p2 || sc.order1 != sc.order2 || sc.long_lived || !sc.absent2.is_empty() || !sc.edits2.is_empty()) {
            distinct.insert(simcore::fsutil::hash_u64(format!("{sc:?}").as_bytes()));
        }
        if i < 3 {
            samples.push(json!({"files": sc.files.iter().map(|f| f.0.clone()).collect::<Vec<_>>(), "p1": sc.p1, "order1": sc.order1, "p2": sc.p2, "order2": sc.order2, "restore": sc.restore, "long_lived": sc.long_lived}));
        }
        if let Some((c, d)) = o.violation {
            found.push((sc, c, d));
        }
    }
    let known = simcore::evidence::load_known("C06");
    let mut exit = 0;
    let mut nviol = 0u64;
    let mut known_hits = 0u64;
    let mut seen = BTreeSet::new();
    let mut printed = BTreeSet::new();
    for (sc, class, detail) in found {
        if let Some(k) = known.iter().find(|k| k.status == "known" && (class.contains(&k.key) || detail.contains(&k.key))) {
            known_hits += 1;
            if printed.insert(k.key.clone()) {
                println!("KNOWN-FINDING: property=C06 {}", k.what);
            }
            continue;
        }
        if !seen.insert(class.clone()) {
            continue;
        }
        // minimise: fewer restored files, fewer files, no fillers, identity orders
        let mut best = sc.clone();
        let same = |c: &Scenario| run(c).violation.is_some_and(|v| v.0 == class);
        let mut budget = 40;
        let mut i = 0;
        while i < best.restore.len() && best.restore.len() > 1 && budget > 0 {
            let mut cand = best.clone();
            cand.restore.remove(i);
            budget -= 1;
            if same(&cand) {
                best = cand;
            } else {
                i += 1;
            }
        }
        for simplify in 0..6 {
            if budget == 0 {
                break;
            }
            let mut cand = best.clone();
            match simplify {
                0 => cand.p1 = 0,
                1 => cand.p2 = 0,
                2 => cand.order1 = (0..cand.files.len()).collect(),
                3 => cand.long_lived = false,
                4 => cand.absent2.clear(),
                _ => cand.edits2.clear(),
            }
            budget -= 1;
            if same(&cand) {
                best = cand;
            }
        }
        let path = simcore::evidence::write_replay("C06", &format!("{seed}-{nviol}"), &json!({"property": "C06", "violation_class": class, "violation": detail, "scenario": best, "seed": seed}));
        let child = std::process::Command::new(std::env::current_exe().unwrap()).arg("--replay").arg(&path).env("VERIF_REPLAY_CHILD", "1").output();
        if child.map(|o| o.status.code() == Some(1)).unwrap_or(false) {
            println!("violation [{class}]: {detail}");
            println!("VIOLATION property=C06 replay={}", path.display());
            nviol += 1;
            exit = 1;
        } else {
            eprintln!("harness error: C06 violation did not replay in a fresh process ({}): {detail}", path.display());
            exit = exit.max(2);
        }
    }
    for p in ["fragments.restored", "context.long_lived_thread", "context.different_id_offsets", "context.different_file_order", "context.files_removed_between_builds", "context.files_edited_between_builds"] {
        if counters.get(p) == 0 {
            eprintln!("harness error: reach probe {p} stayed at zero");
            exit = exit.max(2);
        }
    }
    let wall = start.elapsed().as_secs_f64();
    let mut extra = serde_json::Map::new();
    extra.insert("probes".into(), counters.to_json());
    extra.insert("runs_per_hour".into(), json!((n as f64 / wall * 3600.0) as u64));
    extra.insert("known_finding_hits".into(), json!(known_hits));
    extra.insert("components".into(), json!({"real": ["parser, analyzer pass1, fragment_cache::{watermark,capture,restore}, fragment codecs (postcard round trip through bytes), analyze_post_pass1, pass2, emitter, Analyzer::drop_file (long-lived variant)"], "simulated": ["the capturing and the restoring process: separate threads with fresh thread-local tables, pre-advanced ID counters, independent file orders, seeded restore subset"], "stub": ["the CLI and the on-disk store around the fragments (covered by C04/C05/C29)"]}));
    Evidence {
        property_id: "C06".into(),
        tier: tier.clone(),
        seed,
        level: "exploration".into(),
        evaluations: n as u64,
        distinct_nontrivial: distinct.len() as u64,
        rule: "seeded file sets (shape-library projects, or 1-3 of the repository's testcases/veryl files) x capture context (0-3 filler files first, seeded order) x restore context (0-3 fillers, seeded order, seeded restore subset, 1 in 4 on a long-lived thread that analysed and dropped the files before; 1 in 3 with some files removed from the project, each shape-library file edited to another variant with probability 1/3 - removed and edited files are never restored); restoring context vs all-parsed context: byte-equal dumps of symbol table, scope tokens, owned scopes, type dag, file dag, attribute and unsafe tables (fresh threads), equal post-pass1 and pass2 diagnostics, equal emitted code of the parsed files. A capture refusal or a clean restore failure is the allowed outcome. distinct_nontrivial = distinct scenarios with at least one restored fragment and a context that differs between capture and restore".into(),
        samples,
        extra,
        assumptions: vec!["the input dimension (all declaration kinds) is sampled by the shape library and testcases/veryl, not explored; the history/ID-offset dimension is what this check explores".into()],
        wall_s: wall,
        violations: nviol,
    }
    .write();
    println!("C06: triples={n} distinct={} violations={nviol} known={known_hits} wall={wall:.1}s", distinct.len());
    std::process::exit(exit);
}
