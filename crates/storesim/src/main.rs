//! storesim — C29: the cache store behaves like a versioned key-value map.
//!
//! Real `veryl_cache::Store` on a scratch directory, driven by seeded operation
//! sequences and compared operation by operation with a small sequential
//! reference model. Crash points inside every operation are enumerated through
//! the `veryl_path::sim` gates (thread-local handler, unwinding crash that
//! leaves the temp file behind); I/O errors are injected at the same gates in a
//! separate configuration.

use serde::{Deserialize, Serialize};
use serde_json::json;
use simcore::evidence::{Counters, Evidence};
use simcore::fsutil::Scratch;
use simcore::rng::{mix, verif_seed, Rng};
use std::cell::RefCell;
use std::collections::BTreeMap;
use std::path::Path;
use std::rc::Rc;
use veryl_cache::Store;
use veryl_path::sim::{self, Verdict};

const SRCS: [&str; 4] = ["/p/src/a.veryl", "/p/src/b.veryl", "/p/src/c.veryl", "/p/src/d.veryl"];
const KEYS: [&str; 3] = ["key-A", "key-B", "key-C"];

#[derive(Clone, Debug, Serialize, Deserialize, PartialEq)]
enum Op {
    Open { key: usize, try_: bool },
    Put { src: usize, hash: u32, blob: Option<u32> },
    SetDiag { src: usize, blob: u32 },
    Keep { src: usize },
    Invalidate { src: usize },
    SetDeps { src: usize, deps: Vec<usize> },
    SetTests { src: usize, tests: Vec<u32> },
    Save,
    Close,
    /// keep() every previous entry then save(): the identical re-scan.
    Rescan,
    /// Second try_open on the same root while a store is alive.
    SecondOpen { key: usize },
    /// Read entry/load for a source mid-session.
    Read { src: usize },
}

#[derive(Clone, Debug, Serialize, Deserialize, PartialEq)]
enum Fault {
    None,
    /// Crash (unwind, temp file kept) at global gate number `at`; `prefix` tears a data gate.
    Crash { at: usize, prefix: Option<u64> },
    /// I/O error `errno` at global gate number `at`.
    Io { at: usize, errno: i32 },
}

#[derive(Clone, Debug, Serialize, Deserialize)]
struct Scenario {
    ops: Vec<Op>,
    fault: Fault,
}

fn blob_bytes(id: u32) -> Vec<u8> {
    // Every written value is unique and self-describing; sizes vary, some empty-ish.
    let n = 1 + (id as usize * 37) % 200;
    let mut v = format!("blob#{id}:").into_bytes();
    let mut x = id as u64;
    while v.len() < n {
        x = simcore::rng::splitmix(x);
        v.push(x as u8);
    }
    v
}

#[derive(Clone, Debug, PartialEq, Default)]
struct MEntry {
    hash: String,
    fragment: Option<u32>,
    dependents: Vec<String>,
    tests: Vec<String>,
    diagnostics: Option<u32>,
}

#[derive(Clone, Debug, Default)]
struct Model {
    /// Durable manifest: (key, files); None until the first effective save.
    disk: Option<(usize, BTreeMap<usize, MEntry>)>,
    /// Session state while a store is open.
    session: Option<Session>,
}

#[derive(Clone, Debug)]
struct Session {
    key: usize,
    prev: BTreeMap<usize, MEntry>,
    next: BTreeMap<usize, MEntry>,
    on_disk_current: bool,
    locked: bool,
}

struct GateLog {
    n: usize,
    fault: Fault,
    fired: Option<String>,
    kinds: Vec<(String, String)>,
    io_failed_paths: Vec<String>,
    /// Set while the harness itself reads the store to verify it: not a fault point.
    checking: bool,
}

#[derive(Debug)]
struct Outcome {
    violation: Option<String>,
    gates: usize,
    gate_kinds: Vec<(String, String)>,
    probes: Counters,
    fault_fired: Option<String>,
}

thread_local!(static CHECK_LOG: RefCell<Option<Rc<RefCell<GateLog>>>> = const { RefCell::new(None) });

fn check_entries(store: &Store, expect: &BTreeMap<usize, MEntry>, ctx: &str) -> Result<(), String> {
    let log = CHECK_LOG.with(|x| x.borrow().clone());
    if let Some(l) = &log {
        l.borrow_mut().checking = true;
    }
    let r = check_entries_inner(store, expect, ctx);
    if let Some(l) = &log {
        l.borrow_mut().checking = false;
    }
    r
}

fn check_entries_inner(store: &Store, expect: &BTreeMap<usize, MEntry>, ctx: &str) -> Result<(), String> {
    for (i, src) in SRCS.iter().enumerate() {
        let got = store.entry(src);
        match (got, expect.get(&i)) {
            (None, None) => {}
            (Some(g), Some(m)) => {
                if g.hash != m.hash {
                    return Err(format!("{ctx}: {src} hash {} != model {}", g.hash, m.hash));
                }
                if g.dependents != m.dependents {
                    return Err(format!("{ctx}: {src} dependents {:?} != model {:?}", g.dependents, m.dependents));
                }
                if g.tests != m.tests {
                    return Err(format!("{ctx}: {src} tests {:?} != model {:?}", g.tests, m.tests));
                }
                if g.fragment.is_some() != m.fragment.is_some() {
                    return Err(format!("{ctx}: {src} fragment presence {:?} != model {:?}", g.fragment, m.fragment));
                }
                if g.diagnostics.is_some() != m.diagnostics.is_some() {
                    return Err(format!("{ctx}: {src} diagnostics presence {:?} != model {:?}", g.diagnostics, m.diagnostics));
                }
                if let Some(b) = m.fragment {
                    match store.load(g) {
                        Some(bytes) if bytes == blob_bytes(b) => {}
                        Some(_) => return Err(format!("{ctx}: {src} load returned other bytes than blob#{b}")),
                        None => return Err(format!("{ctx}: {src} referenced fragment blob#{b} does not load (deleted or unreadable)")),
                    }
                }
                if let Some(b) = m.diagnostics {
                    match store.load_diagnostics(g) {
                        Some(bytes) if bytes == blob_bytes(b) => {}
                        Some(_) => return Err(format!("{ctx}: {src} load_diagnostics returned other bytes than blob#{b}")),
                        None => return Err(format!("{ctx}: {src} referenced diagnostics blob#{b} does not load")),
                    }
                }
            }
            (g, m) => {
                return Err(format!(
                    "{ctx}: {src} entry present={} but model present={}",
                    g.is_some(),
                    m.is_some()
                ));
            }
        }
    }
    Ok(())
}

fn run_scenario(sc: &Scenario) -> Outcome {
    let scratch = Scratch::new("st");
    let root = scratch.path.join("cache");
    let log = Rc::new(RefCell::new(GateLog {
        n: 0,
        fault: sc.fault.clone(),
        fired: None,
        kinds: vec![],
        io_failed_paths: vec![],
        checking: false,
    }));
    CHECK_LOG.with(|x| *x.borrow_mut() = Some(log.clone()));
    {
        let log = log.clone();
        sim::set_thread_handler(Some(Box::new(move |ev| {
            let mut l = log.borrow_mut();
            if l.checking {
                return Verdict::Go;
            }
            let k = l.n;
            l.n += 1;
            l.kinds.push((ev.kind.clone(), ev.path.clone()));
            match l.fault.clone() {
                Fault::Crash { at, prefix } if at == k => {
                    l.fired = Some(format!("crash@{}", ev.kind));
                    match prefix {
                        Some(n) if ev.kind.ends_with(".data") => {
                            // 0, 1 literal; MAX/2 = half; MAX-1 = all but the last byte.
                            let n = if n == u64::MAX / 2 {
                                ev.len / 2
                            } else if n == u64::MAX - 1 {
                                ev.len.saturating_sub(1)
                            } else {
                                n.min(ev.len)
                            };
                            Verdict::CrashPrefix(n)
                        }
                        _ => Verdict::Crash,
                    }
                }
                Fault::Io { at, errno }
                    if at == k
                        && matches!(
                            ev.kind.as_str(),
                            "aw.create" | "aw.data" | "aw.rename" | "lock.acq" | "lock.try" | "gc.remove"
                        ) =>
                {
                    l.fired = Some(format!("io@{}", ev.kind));
                    if ev.kind != "gc.remove" {
                        l.io_failed_paths.push(ev.path.clone());
                    }
                    Verdict::Fail(errno)
                }
                _ => Verdict::Go,
            }
        })));
    }

    let mut model = Model::default();
    let mut store: Option<Store> = None;
    let mut probes = Counters::default();
    let mut violation: Option<String> = None;
    let io_mode = matches!(sc.fault, Fault::Io { .. });

    let mut i = 0;
    while i < sc.ops.len() && violation.is_none() {
        let op = sc.ops[i].clone();
        i += 1;
        // The operation runs under catch_unwind: a simulated crash unwinds out of it.
        let mut st = store.take();
        let mut md = model.clone();
        let root2 = root.clone();
        let log2 = log.clone();
        let res = std::panic::catch_unwind(std::panic::AssertUnwindSafe(|| {
            let r = apply(&op, &mut st, &mut md, &root2, &log2, io_mode);
            (st, md, r)
        }));
        match res {
            Ok((st, md, r)) => {
                store = st;
                model = md;
                match r {
                    Ok(p) => probes.merge(&p),
                    Err(e) => violation = Some(format!("op#{} {:?}: {e}", i - 1, op)),
                }
            }
            Err(payload) => {
                if payload.downcast_ref::<sim::SimCrash>().is_none() {
                    let msg = payload
                        .downcast_ref::<String>()
                        .cloned()
                        .or_else(|| payload.downcast_ref::<&str>().map(|s| s.to_string()))
                        .unwrap_or_default();
                    violation = Some(format!("op#{} {:?}: panic: {msg}", i - 1, op));
                    break;
                }
                // The process died inside `op`; the store object went with it.
                probes.inc("crash.fired");
                let (kind, path) = log.borrow().kinds.last().cloned().unwrap_or_default();
                let in_save = matches!(op, Op::Save | Op::Rescan);
                let manifest_gate = path.ends_with("manifest.toml");
                let session = model.session.take();
                // Exactly which durable state must be visible after the crash.
                if in_save && kind == "gc.remove" {
                    // The rename happened: the new manifest is the saved state.
                    if let Some(s) = session {
                        let mut next = s.next.clone();
                        if matches!(op, Op::Rescan) {
                            for (k, e) in &s.prev {
                                next.insert(*k, e.clone());
                            }
                        }
                        model.disk = Some((s.key, next));
                    }
                    probes.inc("crash.in_gc");
                } else if in_save && manifest_gate {
                    probes.inc("crash.in_manifest_write");
                } else if matches!(op, Op::Put { .. } | Op::SetDiag { .. }) {
                    probes.inc("crash.in_blob_write");
                } else {
                    probes.inc("crash.elsewhere");
                }
                // Restart: reopen with the key of the durable manifest (or key 0).
                let key = model.disk.as_ref().map(|d| d.0).unwrap_or(0);
                let st = Store::try_open(&root, KEYS[key]);
                match st {
                    None => violation = Some(format!("after crash in op#{} {:?}: lock still held after process death", i - 1, op)),
                    Some(st) => {
                        let expect = model.disk.as_ref().map(|d| d.1.clone()).unwrap_or_default();
                        if let Err(e) = check_entries(&st, &expect, &format!("after crash at gate {kind} in op#{} {:?}", i - 1, op)) {
                            violation = Some(e);
                        }
                        drop(st);
                    }
                }
                // Skip to the next Open.
                while i < sc.ops.len() && !matches!(sc.ops[i], Op::Open { .. }) {
                    i += 1;
                }
            }
        }
    }
    drop(store);
    // Faults stop here; gates of the final verification are not fault points.
    let gates_in_ops = log.borrow().n;
    log.borrow_mut().fault = Fault::None;
    // Final reopen with every key: same key -> last saved state, other keys -> nothing.
    if violation.is_none() {
        for (k, key) in KEYS.iter().enumerate() {
            let Some(st) = Store::try_open(&root, key) else {
                violation = Some("final reopen: store locked although nobody holds it".into());
                break;
            };
            let expect = match &model.disk {
                Some((dk, files)) if *dk == k => files.clone(),
                _ => BTreeMap::new(),
            };
            if let Err(e) = check_entries(&st, &expect, &format!("final reopen with {key}")) {
                violation = Some(e);
                break;
            }
        }
    }
    sim::set_thread_handler(None);
    let l = log.borrow();
    Outcome {
        violation,
        gates: gates_in_ops,
        gate_kinds: l.kinds[..gates_in_ops].to_vec(),
        probes,
        fault_fired: l.fired.clone(),
    }
}

fn apply(
    op: &Op,
    store: &mut Option<Store>,
    model: &mut Model,
    root: &Path,
    log: &Rc<RefCell<GateLog>>,
    io_mode: bool,
) -> Result<Counters, String> {
    let mut probes = Counters::default();
    match op {
        Op::Open { key, try_ } => {
            if store.is_some() {
                return Ok(probes);
            }
            let gates_before = log.borrow().io_failed_paths.len();
            let st = if *try_ {
                Store::try_open(root, KEYS[*key])
            } else {
                Some(Store::open(root, KEYS[*key]))
            };
            let lock_failed = log.borrow().io_failed_paths.len() > gates_before;
            let Some(st) = st else {
                if *try_ && lock_failed {
                    probes.inc("try_open.unavailable_by_fault");
                    return Ok(probes);
                }
                return Err("try_open returned None although no other store is alive".into());
            };
            let (prev, current) = match &model.disk {
                Some((dk, files)) if dk == key => (files.clone(), true),
                Some(_) => {
                    probes.inc("open.key_mismatch_discards");
                    (BTreeMap::new(), false)
                }
                None => (BTreeMap::new(), false),
            };
            check_entries(&st, &prev, &format!("open with {}", KEYS[*key]))?;
            if current && !prev.is_empty() {
                probes.inc("open.same_key_nonempty");
            }
            model.session = Some(Session {
                key: *key,
                prev,
                next: BTreeMap::new(),
                on_disk_current: current,
                locked: !lock_failed,
            });
            *store = Some(st);
        }
        Op::SecondOpen { key } => {
            let (Some(_), Some(s)) = (store.as_ref(), model.session.as_ref()) else {
                return Ok(probes);
            };
            if !s.locked {
                return Ok(probes);
            }
            if Store::try_open(root, KEYS[*key]).is_some() {
                return Err("second try_open succeeded while the first store holds the lock".into());
            }
            probes.inc("second_open.refused");
        }
        Op::Put { src, hash, blob } => {
            let (Some(st), Some(s)) = (store.as_mut(), model.session.as_mut()) else {
                return Ok(probes);
            };
            let before = log.borrow().io_failed_paths.len();
            st.put(SRCS[*src].to_string(), format!("h{hash}"), blob.map(blob_bytes).as_deref());
            let failed = log.borrow().io_failed_paths.len() > before;
            s.next.insert(
                *src,
                MEntry {
                    hash: format!("h{hash}"),
                    // A failed blob write degrades to "not cacheable".
                    fragment: if failed { None } else { *blob },
                    ..Default::default()
                },
            );
            if failed {
                probes.inc("put.blob_write_failed");
            }
        }
        Op::SetDiag { src, blob } => {
            let (Some(st), Some(s)) = (store.as_mut(), model.session.as_mut()) else {
                return Ok(probes);
            };
            let before = log.borrow().io_failed_paths.len();
            st.set_diagnostics(SRCS[*src], &blob_bytes(*blob));
            let failed = log.borrow().io_failed_paths.len() > before;
            if let Some(e) = s.next.get_mut(src)
                && e.fragment.is_some()
            {
                e.diagnostics = if failed { None } else { Some(*blob) };
                probes.inc("set_diag.applied");
            }
        }
        Op::Keep { src } => {
            let (Some(st), Some(s)) = (store.as_mut(), model.session.as_mut()) else {
                return Ok(probes);
            };
            st.keep(SRCS[*src]);
            if let Some(e) = s.prev.get(src) {
                s.next.insert(*src, e.clone());
                probes.inc("keep.hit");
            }
        }
        Op::Invalidate { src } => {
            let (Some(st), Some(s)) = (store.as_mut(), model.session.as_mut()) else {
                return Ok(probes);
            };
            st.invalidate(SRCS[*src]);
            if let Some(e) = s.next.get_mut(src) {
                e.fragment = None;
            }
        }
        Op::SetDeps { src, deps } => {
            let (Some(st), Some(s)) = (store.as_mut(), model.session.as_mut()) else {
                return Ok(probes);
            };
            let d: Vec<String> = deps.iter().map(|x| SRCS[*x].to_string()).collect();
            st.set_dependents(SRCS[*src], d.clone());
            if let Some(e) = s.next.get_mut(src) {
                e.dependents = d;
            }
        }
        Op::SetTests { src, tests } => {
            let (Some(st), Some(s)) = (store.as_mut(), model.session.as_mut()) else {
                return Ok(probes);
            };
            let t: Vec<String> = tests.iter().map(|x| format!("test_{x}")).collect();
            st.set_tests(SRCS[*src], t.clone());
            if let Some(e) = s.next.get_mut(src) {
                e.tests = t;
            }
        }
        Op::Save | Op::Rescan => {
            let (Some(st), Some(s)) = (store.as_mut(), model.session.as_mut()) else {
                return Ok(probes);
            };
            if matches!(op, Op::Rescan) {
                for (i, src) in SRCS.iter().enumerate() {
                    st.keep(src);
                    if let Some(e) = s.prev.get(&i) {
                        s.next.insert(i, e.clone());
                    }
                }
            }
            let gates_before = log.borrow().n;
            let fails_before = log.borrow().io_failed_paths.len();
            st.save();
            let wrote = log.borrow().n > gates_before;
            let failed = log.borrow().io_failed_paths.len() > fails_before;
            let manifest_failed = failed
                && log.borrow().io_failed_paths[fails_before..]
                    .iter()
                    .any(|p| p.ends_with("manifest.toml"));
            if s.on_disk_current && s.next == s.prev {
                // Identical re-scan: the write is skipped, the saved state is unchanged.
                if wrote {
                    probes.inc("save.identical_but_wrote");
                } else {
                    probes.inc("save.skipped_identical");
                }
                s.next.clear();
            } else {
                s.prev = std::mem::take(&mut s.next);
                if manifest_failed {
                    // The save did not happen; durable state is the old one.
                    probes.inc("save.manifest_write_failed");
                    if !io_mode {
                        return Err("manifest write failed without an injected fault".into());
                    }
                } else {
                    model.disk = Some((s.key, s.prev.clone()));
                    s.on_disk_current = true;
                    probes.inc("save.wrote");
                    if log.borrow().kinds[gates_before..].iter().any(|(k, _)| k == "gc.remove") {
                        probes.inc("save.gc_removed_blob");
                    }
                }
            }
            // In-memory view after save: entry() serves the new manifest.
            check_entries(st, &s.prev, "after save (in-memory view)")?;
            // Saving never deletes a blob the saved manifest references (on-disk check).
            if let Some((_, files)) = &model.disk
                && !manifest_failed
            {
                for (i, e) in files {
                    if e.fragment.is_some() || e.diagnostics.is_some() {
                        let g = st.entry(SRCS[*i]);
                        if let Some(g) = g {
                            for rel in g.fragment.iter().chain(g.diagnostics.iter()) {
                                if !root.join(rel).exists() {
                                    return Err(format!("after save: blob {rel} referenced by the saved manifest is missing on disk"));
                                }
                            }
                        }
                    }
                }
            }
        }
        Op::Close => {
            if store.take().is_some() {
                model.session = None;
                probes.inc("close");
            }
        }
        Op::Read { src } => {
            let (Some(st), Some(s)) = (store.as_ref(), model.session.as_ref()) else {
                return Ok(probes);
            };
            let mut one = BTreeMap::new();
            if let Some(e) = s.prev.get(src) {
                one.insert(*src, e.clone());
            }
            let got = st.entry(SRCS[*src]);
            if got.is_some() != one.contains_key(src) {
                return Err(format!("read {}: presence differs from model", SRCS[*src]));
            }
            if let (Some(g), Some(m)) = (got, one.get(src)) {
                if g.hash != m.hash {
                    return Err(format!("read {}: hash differs", SRCS[*src]));
                }
                if let Some(b) = m.fragment
                    && st.load(g).as_deref() != Some(&blob_bytes(b)[..])
                {
                    return Err(format!("read {}: load differs from blob#{b}", SRCS[*src]));
                }
            }
        }
    }
    Ok(probes)
}

fn gen_scenario(rng: &mut Rng, max_ops: usize) -> Vec<Op> {
    let n = 4 + rng.below(max_ops - 3);
    let nsrc = 1 + rng.below(SRCS.len());
    let nkeys = 1 + rng.below(KEYS.len());
    let mut next_blob = rng.below(1000) as u32 * 1000;
    let mut recent: Vec<u32> = vec![];
    let mut ops = vec![];
    let mut open = false;
    for _ in 0..n {
        if !open {
            ops.push(Op::Open {
                key: if rng.chance(3, 4) { 0 } else { rng.below(nkeys) },
                try_: rng.chance(1, 4),
            });
            open = true;
            continue;
        }
        let r = rng.below(100);
        let src = rng.below(nsrc);
        let op = match r {
            0..=27 => {
                let blob = if rng.chance(1, 5) {
                    None
                } else if !recent.is_empty() && rng.chance(1, 4) {
                    // Re-put an earlier value: content-addressed reuse / re-creation after GC.
                    Some(*rng.pick(&recent))
                } else {
                    next_blob += 1;
                    recent.push(next_blob);
                    Some(next_blob)
                };
                Op::Put { src, hash: if rng.chance(1, 3) { 1 } else { rng.below(50) as u32 }, blob }
            }
            28..=37 => {
                next_blob += 1;
                Op::SetDiag { src, blob: next_blob }
            }
            38..=52 => Op::Keep { src },
            53..=57 => Op::Invalidate { src },
            58..=63 => Op::SetDeps { src, deps: (0..rng.below(3)).map(|_| rng.below(nsrc)).collect() },
            64..=67 => Op::SetTests { src, tests: (0..rng.below(3)).map(|_| rng.below(5) as u32).collect() },
            68..=82 => Op::Save,
            83..=87 => Op::Rescan,
            88..=93 => {
                open = false;
                Op::Close
            }
            94..=96 => Op::SecondOpen { key: rng.below(nkeys) },
            _ => Op::Read { src },
        };
        ops.push(op);
    }
    if open && rng.chance(2, 3) {
        ops.push(Op::Save);
    }
    ops
}

fn minimise(sc: &Scenario) -> Scenario {
    let mut best = sc.clone();
    let class = |o: &Outcome| o.violation.as_ref().map(|v| vclass(v));
    let target = class(&run_scenario(&best));
    if target.is_none() {
        return best;
    }
    let mut changed = true;
    while changed {
        changed = false;
        let mut i = 0;
        while i < best.ops.len() {
            let mut cand = best.clone();
            cand.ops.remove(i);
            // A fault index is a gate number; re-derive it by search when ops change.
            let cands: Vec<Scenario> = match cand.fault.clone() {
                Fault::None => vec![cand],
                f => {
                    let g = run_scenario(&Scenario { ops: cand.ops.clone(), fault: Fault::None }).gates;
                    (0..g)
                        .map(|at| Scenario {
                            ops: cand.ops.clone(),
                            fault: match &f {
                                Fault::Crash { prefix, .. } => Fault::Crash { at, prefix: *prefix },
                                Fault::Io { errno, .. } => Fault::Io { at, errno: *errno },
                                Fault::None => Fault::None,
                            },
                        })
                        .collect()
                }
            };
            let mut found = false;
            for c in cands {
                let o = run_scenario(&c);
                if o.violation.is_some() && class(&o) == target {
                    best = c;
                    found = true;
                    changed = true;
                    break;
                }
            }
            if !found {
                i += 1;
            }
        }
    }
    best
}

fn replay(path: &str) -> i32 {
    let text = std::fs::read_to_string(path).expect("read replay file");
    let v: serde_json::Value = serde_json::from_str(&text).expect("parse replay file");
    let sc: Scenario = serde_json::from_value(v["scenario"].clone()).expect("scenario");
    let o = run_scenario(&sc);
    match o.violation {
        Some(v) => {
            println!("replayed: {v}");
            println!("VIOLATION property=C29 replay={path}");
            1
        }
        None => {
            println!("replay did not reproduce a violation");
            0
        }
    }
}

fn main() {
    let args: Vec<String> = std::env::args().collect();
    std::panic::set_hook(Box::new(|info| {
        if info.payload().downcast_ref::<sim::SimCrash>().is_none() {
            eprintln!("panic: {info}");
        }
    }));
    if args.len() >= 3 && args[1] == "--replay" {
        let code = replay(&args[2]);
        simcore::fsutil::cleanup_scratch_root();
        std::process::exit(code);
    }
    let tier = args.get(1).cloned().unwrap_or_else(simcore::evidence::tier);
    let seed = verif_seed();
    let start = std::time::Instant::now();
    let (n_seq, max_ops, crash_enum_every, io_runs) = if tier == "thorough" {
        (60_000usize, 18usize, 20usize, 60_000usize)
    } else {
        (6_000, 14, 20, 6_000)
    };
    println!("storesim C29 tier={tier} VERIF_SEED={seed} sequences={n_seq}");

    struct Part {
        evals: u64,
        distinct: std::collections::BTreeSet<u64>,
        probes: Counters,
        gate_kinds: Counters,
        violations: Vec<(Scenario, String)>,
        samples: Vec<serde_json::Value>,
        crash_points: u64,
        io_points: u64,
    }
    let jobs = simcore::pool::workers();
    let chunk = 200usize;
    let nchunks = n_seq.div_ceil(chunk);
    let parts = simcore::pool::par_map(nchunks, jobs, |c| {
        let mut part = Part {
            evals: 0,
            distinct: Default::default(),
            probes: Default::default(),
            gate_kinds: Default::default(),
            violations: vec![],
            samples: vec![],
            crash_points: 0,
            io_points: 0,
        };
        for j in 0..chunk {
            let idx = c * chunk + j;
            if idx >= n_seq {
                break;
            }
            let mut rng = Rng::new(mix(seed, "C29", idx as u64));
            let ops = gen_scenario(&mut rng, max_ops);
            let base = Scenario { ops: ops.clone(), fault: Fault::None };
            let o = run_scenario(&base);
            part.evals += 1;
            part.probes.merge(&o.probes);
            for (k, _) in &o.gate_kinds {
                part.gate_kinds.inc(k);
            }
            let nontrivial = o.probes.get("save.wrote") > 0;
            if nontrivial {
                part.distinct.insert(simcore::fsutil::hash_u64(format!("{ops:?}").as_bytes()));
            }
            if idx < 3 {
                part.samples.push(json!({"ops": format!("{ops:?}"), "gates": o.gates}));
            }
            if let Some(v) = o.violation {
                part.violations.push((base, v));
                continue;
            }
            // Crash enumeration: every gate of this sequence, for a subset of sequences.
            if idx % crash_enum_every == 0 {
                for at in 0..o.gates {
                    let is_data = o.gate_kinds[at].0.ends_with(".data");
                    let mut variants = vec![None];
                    if is_data {
                        variants.extend([Some(0u64), Some(1), Some(u64::MAX / 2), Some(u64::MAX - 1)]);
                    }
                    for prefix in variants {
                        // Prefix values are resolved against the gate's len in the handler:
                        // MAX/2 -> len/2, MAX-1 -> len-1 via min(); keep explicit smaller ones too.
                        let prefix = prefix.map(|p| p);
                        let sc = Scenario { ops: ops.clone(), fault: Fault::Crash { at, prefix } };
                        let oc = run_scenario(&sc);
                        part.evals += 1;
                        part.crash_points += 1;
                        part.probes.merge(&oc.probes);
                        if let Some(f) = &oc.fault_fired {
                            part.probes.inc(&format!("fault.{f}"));
                        }
                        if let Some(v) = oc.violation {
                            part.violations.push((sc, v));
                        }
                    }
                }
            }
            // I/O error at one seeded gate (separate configuration, relaxed model).
            if idx < io_runs && o.gates > 0 {
                let at = rng.below(o.gates);
                let errno = *rng.pick(&[libc_enospc(), 5, 13]);
                let sc = Scenario { ops: ops.clone(), fault: Fault::Io { at, errno } };
                let oi = run_scenario(&sc);
                part.evals += 1;
                part.io_points += 1;
                part.probes.merge(&oi.probes);
                if let Some(f) = &oi.fault_fired {
                    part.probes.inc(&format!("fault.{f}"));
                }
                if let Some(v) = oi.violation {
                    part.violations.push((sc, v));
                }
            }
        }
        part
    });

    let mut evals = 0;
    let mut distinct = std::collections::BTreeSet::new();
    let mut probes = Counters::default();
    let mut gate_kinds = Counters::default();
    let mut violations = vec![];
    let mut samples = vec![];
    let mut crash_points = 0;
    let mut io_points = 0;
    for p in parts {
        evals += p.evals;
        distinct.extend(p.distinct);
        probes.merge(&p.probes);
        gate_kinds.merge(&p.gate_kinds);
        violations.extend(p.violations);
        samples.extend(p.samples);
        crash_points += p.crash_points;
        io_points += p.io_points;
    }

    // Determinism sample: the same scenarios twice give the same gate list and verdict.
    let mut det_pairs = 0;
    let mut det_fail = None;
    for idx in 0..16u64 {
        let mut rng = Rng::new(mix(seed, "C29", idx));
        let ops = gen_scenario(&mut rng, max_ops);
        let sc = Scenario { ops, fault: Fault::None };
        let a = run_scenario(&sc);
        let b = run_scenario(&sc);
        let ka: Vec<String> = a.gate_kinds.iter().map(|(k, p)| format!("{k} {}", norm(p))).collect();
        let kb: Vec<String> = b.gate_kinds.iter().map(|(k, p)| format!("{k} {}", norm(p))).collect();
        // gc removal order follows readdir order, which is not part of the schedule: compare as multisets there.
        let mut sa = ka.clone();
        let mut sb = kb.clone();
        sa.sort();
        sb.sort();
        if sa != sb || a.violation != b.violation {
            det_fail = Some(idx);
        }
        det_pairs += 1;
    }

    let mut exit = 0;
    let known = simcore::evidence::load_known("C29");
    let mut reported = std::collections::BTreeSet::new();
    let mut nviol = 0;
    for (sc, v) in violations.iter().take(20) {
        let class: String = vclass(v);
        if let Some(k) = known.iter().find(|k| k.status == "known" && v.contains(&k.key)) {
            if reported.insert(k.key.clone()) {
                println!("KNOWN-FINDING: property=C29 {}", k.what);
            }
            continue;
        }
        if !reported.insert(class.clone()) {
            continue;
        }
        let min = minimise(sc);
        let o = run_scenario(&min);
        let Some(v2) = o.violation else {
            eprintln!("harness error: minimised scenario does not reproduce ({v})");
            exit = 2;
            continue;
        };
        let name = format!("{}-{}", seed, nviol);
        let path = simcore::evidence::write_replay("C29", &name, &json!({"property":"C29","violation": v2, "scenario": min, "seed": seed}));
        println!("violation: {v2}");
        println!("VIOLATION property=C29 replay={}", path.display());
        nviol += 1;
        exit = 1;
    }
    if let Some(i) = det_fail {
        eprintln!("harness error: determinism self-check failed on run {i}");
        exit = exit.max(2);
    }
    // Reach probes: a probe at zero is a harness error, not a pass.
    for p in ["save.wrote", "save.skipped_identical", "save.gc_removed_blob", "open.key_mismatch_discards", "second_open.refused", "keep.hit", "crash.in_gc", "crash.in_manifest_write", "crash.in_blob_write"] {
        if probes.get(p) == 0 {
            eprintln!("harness error: reach probe {p} stayed at zero");
            exit = exit.max(2);
        }
    }
    let wall = start.elapsed().as_secs_f64();
    let mut extra = serde_json::Map::new();
    extra.insert("probes_and_faults_fired".into(), probes.to_json());
    extra.insert("gate_kinds_seen".into(), gate_kinds.to_json());
    extra.insert("crash_points_enumerated".into(), json!(crash_points));
    extra.insert("io_error_runs".into(), json!(io_points));
    extra.insert("runs_per_hour".into(), json!((evals as f64 / wall * 3600.0) as u64));
    extra.insert("determinism_pairs_checked".into(), json!(det_pairs));
    extra.insert("components".into(), json!({"real": ["veryl_cache::Store (open/try_open/put/keep/invalidate/set_*/save/gc/lock)", "veryl_path::atomic_write", "local filesystem", "kernel flock"], "stub": ["process death is an unwinding panic out of the operation with the temp file kept; the store object is dropped (lock released) as at process exit"]}));
    extra.insert("simulated_time".into(), json!("not applicable: the store has no clock"));
    Evidence {
        property_id: "C29".into(),
        tier: tier.clone(),
        seed,
        level: "exploration".into(),
        evaluations: evals,
        distinct_nontrivial: distinct.len() as u64,
        rule: "seeded operation sequences (<= 14/18 ops, <= 4 sources, <= 3 keys, unique blob values) over the real Store, each checked against the sequential model at every open/save/read and at a final reopen with every key; for every 20th sequence every gate is additionally a crash point (data gates also torn at prefix 0,1,len/2,len-1), and each sequence gets one seeded I/O error run. distinct_nontrivial = distinct operation sequences (hash of the op list) in which at least one save really wrote a manifest".into(),
        samples,
        extra,
        assumptions: vec![
            "crash = unwinding out of the operation at a gate, temp file kept; no power-loss reordering of completed renames (the property is about process death, not fsync)".into(),
            "gates exist only at the repository's own I/O helpers (atomic_write, blob read/exists, gc remove, lock)".into(),
        ],
        wall_s: wall,
        violations: nviol,
    }
    .write();
    println!("C29: evaluations={evals} distinct={} crash_points={crash_points} io_runs={io_points} violations={nviol} wall={wall:.1}s", distinct.len());
    simcore::fsutil::cleanup_scratch_root();
    std::process::exit(exit);
}

/// Violation class: the message without operation numbers and values.
fn vclass(v: &str) -> String {
    let tail = v.splitn(2, "}: ").last().unwrap_or(v);
    let tail = tail.splitn(2, ": ").last().unwrap_or(tail);
    tail.chars().filter(|c| !c.is_ascii_digit()).take(60).collect()
}

fn norm(p: &str) -> String {
    // temp names and scratch roots vary between runs
    let p = p.rsplit("/cache/").next().unwrap_or(p);
    p.to_string()
}

fn libc_enospc() -> i32 {
    28
}
