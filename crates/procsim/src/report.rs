//! Violation reporting shared by all procsim modes: known findings, replay
//! files, replay in a fresh process before anything is printed as a VIOLATION.

use serde_json::Value;
use simcore::evidence::{self, Finding};
use std::collections::BTreeSet;

pub struct Found {
    /// Stable key of the failing shape (class + the file/gate involved).
    pub key: String,
    pub class: String,
    pub detail: String,
    /// Minimised scenario, ready to be written as a replay file.
    pub replay: Value,
}

pub struct Reporter {
    pub property: String,
    known: Vec<Finding>,
    printed_known: BTreeSet<String>,
    pub violations: u64,
    pub known_hits: u64,
    pub unreproduced: u64,
    pub exit: i32,
    seed: u64,
    attempts: u64,
}

impl Reporter {
    pub fn new(property: &str, seed: u64) -> Reporter {
        Reporter {
            property: property.to_string(),
            known: evidence::load_known(property),
            printed_known: BTreeSet::new(),
            violations: 0,
            known_hits: 0,
            unreproduced: 0,
            exit: 0,
            seed,
            attempts: 0,
        }
    }

    pub fn is_known(&self, key: &str) -> Option<&Finding> {
        self.known.iter().find(|k| k.status == "known" && key.contains(&k.key))
    }

    /// Reports one found violation: KNOWN-FINDING if listed, else writes the
    /// replay file, replays it in a fresh process and prints the VIOLATION line.
    pub fn report(&mut self, f: Found) {
        if let Some(k) = self.is_known(&f.key).cloned() {
            self.known_hits += 1;
            if self.printed_known.insert(k.key.clone()) {
                println!("KNOWN-FINDING: property={} {}", self.property, k.what);
            }
            return;
        }
        let name = format!("{}-{}", self.seed, self.attempts);
        self.attempts += 1;
        let mut v = f.replay.clone();
        if let Some(o) = v.as_object_mut() {
            o.insert("property".into(), Value::String(self.property.clone()));
            o.insert("violation_class".into(), Value::String(f.class.clone()));
            o.insert("violation_key".into(), Value::String(f.key.clone()));
            o.insert("violation".into(), Value::String(f.detail.clone()));
            o.insert("seed".into(), Value::from(self.seed));
        }
        let path = evidence::write_replay(&self.property, &name, &v);
        // Replay in a fresh process: only a failure that reproduces - same violation class -
        // is a violation. Two attempts. A replay that shows another class is a harness error;
        // one that shows nothing at all, twice, is an observation that cannot be reported
        // (noted on stderr and counted, the run does not fail on it).
        let exe = std::env::current_exe().unwrap();
        let mut codes = vec![];
        for _ in 0..2 {
            let out = std::process::Command::new(&exe)
                .arg(&self.property)
                .arg("--replay")
                .arg(&path)
                .env("VERIF_REPLAY_CHILD", "1")
                .env("VERIF_REPLAY_CLASS", &f.class)
                .output();
            let code = out.as_ref().ok().and_then(|o| o.status.code());
            codes.push(code);
            if code == Some(1) {
                break;
            }
        }
        if !codes.contains(&Some(1)) {
            if codes.iter().all(|c| *c == Some(0)) {
                eprintln!("note: UNREPRODUCED-OBSERVATION property={} [{}] did not show again in two fresh replays of {} and is not reported: {}", self.property, f.key, path.display(), f.detail);
                self.unreproduced += 1;
            } else {
                eprintln!("harness error: {} violation did not replay in a fresh process (exit codes {:?}, {}): {}", self.property, codes, path.display(), f.detail);
                self.exit = self.exit.max(2);
            }
            return;
        }
        println!("violation [{}]: {}", f.key, f.detail);
        println!("VIOLATION property={} replay={}", self.property, path.display());
        self.violations += 1;
        self.exit = 1;
    }

    pub fn harness_error(&mut self, msg: &str) {
        eprintln!("harness error: {msg}");
        self.exit = self.exit.max(2);
    }

    /// After a replay run: prints the VIOLATION line if `violated`.
    pub fn replay_result(property: &str, path: &str, violated: Option<(String, String)>) -> i32 {
        match violated {
            Some((class, detail)) => {
                if let Ok(want) = std::env::var("VERIF_REPLAY_CLASS")
                    && want != class
                {
                    // the parent asked for one class; something else showed
                    println!("replayed [{class}] instead of [{want}]: {detail}");
                    return 3;
                }
                if std::env::var("VERIF_REPLAY_CHILD").is_err() {
                    println!("replayed [{class}]: {detail}");
                    println!("VIOLATION property={property} replay={path}");
                }
                1
            }
            None => {
                println!("replay did not reproduce a violation");
                0
            }
        }
    }
}
