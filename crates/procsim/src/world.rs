//! The simulated world of one run: a project directory with its durable state,
//! a private user cache, the simulated clock, and real `veryl-sim` processes
//! run under the coordinator.

use wgen::{Project, Step, TomlOpts};
use simcore::coord::{self, Cand, Decider, Event, ProcSpec, TraceEntry, Verdict};
use simcore::fsutil::{self, Scratch};
use std::collections::BTreeMap;
use std::path::{Path, PathBuf};
use std::time::Duration;

pub const EPOCH_MS: u64 = 1_600_000_000_000;

pub fn veryl_exe() -> PathBuf {
    let root = simcore::evidence::verif_root();
    root.join("target/debug/veryl-sim")
}

/// What one gate-level fault does to a single command.
#[derive(Clone, Debug, Default, serde::Serialize, serde::Deserialize, PartialEq)]
pub struct FaultSpec {
    /// Crash at the k-th gate of the main actor (0-based); `prefix` tears a data gate.
    pub crash_at: Option<usize>,
    pub prefix: Option<u64>,
    /// Fail the k-th gate with this errno.
    pub io_at: Option<(usize, i32)>,
}

/// Decisions of a single-process command: clock ticks, permutation seed,
/// worker count / worker picks, and at most one fault.
pub struct CmdDecider {
    pub fault: FaultSpec,
    pub tick_ms: u64,
    pub perm_seed: Option<u64>,
    pub workers: Option<u64>,
    /// Explicit worker pick sequence (indices into the sorted candidate list).
    pub picks: Vec<usize>,
    pub pick_pos: usize,
    pub rng: Option<simcore::rng::Rng>,
    pub picked: Vec<String>,
    pub fired: Option<String>,
}

impl CmdDecider {
    pub fn plain(tick_ms: u64) -> CmdDecider {
        CmdDecider {
            fault: FaultSpec::default(),
            tick_ms,
            perm_seed: None,
            workers: None,
            picks: vec![],
            pick_pos: 0,
            rng: None,
            picked: vec![],
            fired: None,
        }
    }
}

impl Decider for CmdDecider {
    fn pick(&mut self, cands: &[Cand]) -> usize {
        let i = if cands.len() == 1 {
            0
        } else if self.pick_pos < self.picks.len() {
            let i = self.picks[self.pick_pos] % cands.len();
            self.pick_pos += 1;
            i
        } else if let Some(r) = self.rng.as_mut() {
            r.below(cands.len())
        } else {
            0
        };
        if cands.len() > 1 {
            self.picked.push(cands[i].actor.to_string());
        }
        i
    }
    fn verdict(&mut self, actor: &str, ev: &Event, _seq: usize, actor_seq: usize) -> Verdict {
        if ev.kind.starts_with("perm.") {
            return match self.perm_seed {
                Some(s) => Verdict::Value(s),
                None => Verdict::Go,
            };
        }
        if ev.kind == "choice.test.workers" {
            return match self.workers {
                Some(w) => Verdict::Value(w.saturating_sub(1) % ev.len.max(1)),
                None => Verdict::Go,
            };
        }
        let is_main = !actor.contains(".w");
        if is_main {
            if self.fault.crash_at == Some(actor_seq) {
                self.fired = Some(format!("crash@{}{}", ev.kind, path_class(&ev.path)));
                return match self.fault.prefix {
                    Some(p) if ev.kind.ends_with(".data") => Verdict::Prefix(resolve_prefix(p, ev.len)),
                    _ => Verdict::Crash,
                };
            }
            if let Some((k, errno)) = self.fault.io_at
                && k == actor_seq
            {
                self.fired = Some(format!("io@{}{}", ev.kind, path_class(&ev.path)));
                return Verdict::Fail(errno);
            }
        }
        Verdict::Go
    }
    fn tick(&mut self) -> u64 {
        self.tick_ms
    }
}

/// Class of the file a gate concerns (for fault counters and finding keys).
pub fn path_class(path: &str) -> &'static str {
    if path.is_empty() {
        ""
    } else if path.contains("/.build/cache/") && path.ends_with("manifest.toml") {
        ":manifest"
    } else if path.contains("/.build/cache/") {
        ":blob"
    } else if path.ends_with("info.toml") {
        ":info.toml"
    } else if path.ends_with("test_timings") {
        ":test_timings"
    } else if path.contains("/.build/") {
        ":dot-build"
    } else if path.ends_with("Veryl.lock") {
        ":Veryl.lock"
    } else if path.ends_with(".sv") || path.ends_with(".map") || path.ends_with(".f") {
        ":output"
    } else if path.ends_with(".veryl") {
        ":source"
    } else {
        ":other"
    }
}

/// 0 and 1 literal; u64::MAX/2 = half; u64::MAX-1 = all but the last byte.
pub fn resolve_prefix(p: u64, len: u64) -> u64 {
    if p == u64::MAX / 2 {
        len / 2
    } else if p == u64::MAX - 1 {
        len.saturating_sub(1)
    } else {
        p.min(len)
    }
}

#[derive(Debug, Default, Clone)]
pub struct CmdOut {
    pub exit: Option<i32>,
    pub stdout: String,
    pub stderr: String,
    pub trace: Vec<TraceEntry>,
    pub sim_crashed: bool,
    pub harness_error: Option<String>,
    pub deadlock: Option<String>,
}

impl CmdOut {
    pub fn panicked(&self) -> bool {
        !self.sim_crashed
            && (self.exit == Some(101) || self.exit.is_none() || self.stderr.contains("panicked at"))
    }
}

pub struct World {
    pub scratch: Scratch,
    /// Project root of the history tree.
    pub prj: PathBuf,
    pub home: PathBuf,
    pub now: u64,
    pub project: Project,
    pub cmd_count: usize,
}

impl World {
    /// `slot` distinguishes same-length sibling roots ("h", "r", ...).
    pub fn new(project: &Project, tag: &str) -> World {
        Self::on(project, Scratch::new(tag))
    }

    /// World at a path that depends on `key` only (exact replays).
    pub fn at(project: &Project, key: u64) -> World {
        Self::on(project, Scratch::fixed(key))
    }

    fn on(project: &Project, scratch: Scratch) -> World {
        let base = scratch.path.join("h");
        let prj = base.join(&project.name);
        let home = base.join("home");
        std::fs::create_dir_all(&home).unwrap();
        let mut w = World {
            scratch,
            prj,
            home,
            now: EPOCH_MS,
            project: project.clone(),
            cmd_count: 0,
        };
        w.materialise();
        w
    }

    fn materialise(&mut self) {
        std::fs::create_dir_all(self.prj.join("src")).unwrap();
        self.write_toml();
        let files = self.project.files.clone();
        for (p, c) in &files {
            self.tick(1000);
            let path = self.prj.join(p);
            fsutil::write_file(&path, c.as_bytes());
            fsutil::set_mtime(&path, self.now);
        }
        // path dependencies live next to the project
        self.tick(1000);
    }

    /// Materialises a second project next to the first one (shared user cache).
    pub fn add_project(&mut self, p: &Project) -> PathBuf {
        let dir = self.scratch.path.join("h").join(&p.name);
        std::fs::create_dir_all(dir.join("src")).unwrap();
        self.tick(1000);
        fsutil::write_file(&dir.join("Veryl.toml"), p.toml.render(&p.name).as_bytes());
        fsutil::set_mtime(&dir.join("Veryl.toml"), self.now);
        for (f, c) in &p.files {
            self.tick(1000);
            fsutil::write_file(&dir.join(f), c.as_bytes());
            fsutil::set_mtime(&dir.join(f), self.now);
        }
        dir
    }

    fn write_toml(&mut self) {
        self.tick(1000);
        let path = self.prj.join("Veryl.toml");
        fsutil::write_file(&path, self.project.toml.render(&self.project.name).as_bytes());
        fsutil::set_mtime(&path, self.now);
    }

    pub fn tick(&mut self, ms: u64) {
        self.now += ms.max(1);
    }

    /// Applies an editor step (not a command).
    pub fn apply_edit(&mut self, step: &Step, tick: u64) {
        self.tick(tick);
        match step {
            Step::Write { path, content } => {
                let p = self.prj.join(path);
                fsutil::write_file(&p, content.as_bytes());
                fsutil::set_mtime(&p, self.now);
                self.project.files.insert(path.clone(), content.clone());
            }
            Step::Delete { path } => {
                let _ = std::fs::remove_file(self.prj.join(path));
                self.project.files.remove(path);
            }
            Step::Rename { from, to } => {
                if let Some(c) = self.project.files.remove(from) {
                    let _ = std::fs::rename(self.prj.join(from), self.prj.join(to));
                    // A rename keeps the file's mtime, as mv does.
                    self.project.files.insert(to.clone(), c);
                }
            }
            Step::Touch { path } => {
                if self.project.files.contains_key(path) {
                    fsutil::set_mtime(&self.prj.join(path), self.now);
                }
            }
            Step::SetToml { toml } => {
                self.project.toml = toml.clone();
                self.write_toml();
            }
            Step::DeleteOutput { path } => {
                let _ = std::fs::remove_file(self.prj.join(path));
            }
            Step::EditOutput { path } => {
                let p = self.prj.join(path);
                if let Ok(mut data) = std::fs::read(&p) {
                    data.extend_from_slice(b"// hand edit\n");
                    let _ = std::fs::write(&p, data);
                }
            }
            Step::Cmd { .. } => {}
        }
    }

    pub fn env(&self, hashseed: u64) -> Vec<(String, String)> {
        env_for(&self.home, hashseed)
    }

    /// Runs one veryl command in the history tree under `decider`.
    pub fn run(&mut self, args: &[String], hashseed: u64, decider: &mut dyn Decider) -> CmdOut {
        self.cmd_count += 1;
        let sockdir = self.scratch.path.join(format!("c{}", self.cmd_count));
        let out = run_cmd(&sockdir, &self.prj, &self.home, args, hashseed, self.now, decider);
        let _ = std::fs::remove_dir_all(&sockdir);
        if let Some(t) = out.trace.last() {
            self.now = self.now.max(t.now);
        }
        self.tick(1);
        out
    }

    /// After `veryl fmt` rewrote sources: adopt them and stamp them with simulated time.
    pub fn adopt_sources(&mut self) {
        let paths: Vec<String> = self.project.files.keys().cloned().collect();
        for p in paths {
            if let Ok(c) = std::fs::read_to_string(self.prj.join(&p))
                && self.project.files[&p] != c
            {
                self.project.files.insert(p.clone(), c);
                self.tick(1);
                fsutil::set_mtime(&self.prj.join(&p), self.now);
            }
        }
    }

    /// Snapshot of the whole history tree (project + home) for restore-in-place.
    pub fn snapshot(&self, name: &str) -> PathBuf {
        let dst = self.scratch.path.join(name);
        let _ = std::fs::remove_dir_all(&dst);
        fsutil::copy_tree(&self.scratch.path.join("h"), &dst);
        dst
    }

    pub fn restore(&self, snap: &Path) {
        let h = self.scratch.path.join("h");
        let _ = std::fs::remove_dir_all(&h);
        fsutil::copy_tree(snap, &h);
    }
}

pub fn env_for(home: &Path, hashseed: u64) -> Vec<(String, String)> {
    vec![
        ("HOME".into(), home.to_string_lossy().to_string()),
        ("XDG_CACHE_HOME".into(), home.join("cache").to_string_lossy().to_string()),
        ("XDG_CONFIG_HOME".into(), home.join("config").to_string_lossy().to_string()),
        ("VERYL_SIM_HASHSEED".into(), format!("{hashseed}")),
        ("RUST_BACKTRACE".into(), "0".into()),
        ("TERM".into(), "dumb".into()),
    ]
}

pub fn run_cmd(
    sockdir: &Path,
    cwd: &Path,
    home: &Path,
    args: &[String],
    hashseed: u64,
    now: u64,
    decider: &mut dyn Decider,
) -> CmdOut {
    let spec = ProcSpec {
        name: "p0".into(),
        exe: veryl_exe(),
        args: args.to_vec(),
        cwd: cwd.to_path_buf(),
        env: env_for(home, hashseed),
    };
    let r = coord::run(sockdir, &[spec], now, decider, Duration::from_secs(300));
    let p = r.procs.into_iter().next().unwrap_or_default();
    CmdOut {
        exit: p.exit,
        stdout: p.stdout,
        stderr: p.stderr,
        trace: r.trace,
        sim_crashed: p.sim_crashed,
        harness_error: r.harness_error,
        deadlock: r.deadlock,
    }
}

/// Result of a command as the properties observe it, normalised so that the
/// history tree and a pristine reference tree are comparable.
#[derive(Clone, Debug, PartialEq, Default)]
pub struct Observed {
    pub exit: Option<i32>,
    /// Sorted multiset of diagnostic blocks.
    pub diags: Vec<String>,
    /// Emitted files: relative path -> normalised bytes.
    pub outputs: BTreeMap<String, Vec<u8>>,
}

/// Splits NO_COLOR stderr into diagnostic blocks (multiset, sorted).
pub fn parse_diags(stderr: &str, root: &Path) -> Vec<String> {
    // The directory that holds the project (and its path dependencies) is what differs
    // between the history tree and the reference tree.
    let root_s = root.parent().unwrap_or(root).to_string_lossy().to_string();
    let mut blocks: Vec<String> = vec![];
    let mut cur: Option<String> = None;
    for line in stderr.lines() {
        let l = line.replace(&root_s, "$ROOT");
        if l.starts_with("[INFO") || l.starts_with("[DEBUG") || l.starts_with("[TRACE") {
            continue;
        }
        let starts = l.starts_with("Error: ") || l.starts_with("Warning: ") || l.starts_with("Advice: ") || l.starts_with("[WARN") || l.starts_with("[ERROR");
        if starts {
            if let Some(c) = cur.take() {
                blocks.push(c);
            }
            cur = Some(l);
        } else if let Some(c) = cur.as_mut() {
            c.push('\n');
            c.push_str(&l);
        } else if !l.trim().is_empty() {
            cur = Some(l);
        }
    }
    if let Some(c) = cur.take() {
        blocks.push(c);
    }
    let mut blocks: Vec<String> = blocks.into_iter().map(|b| b.trim_end().to_string()).collect();
    blocks.sort();
    blocks
}

pub fn normalise(data: &[u8], root: &Path) -> Vec<u8> {
    let root_s = root.parent().unwrap_or(root).to_string_lossy().to_string();
    match std::str::from_utf8(data) {
        Ok(s) => s.replace(&root_s, "$ROOT").into_bytes(),
        Err(_) => data.to_vec(),
    }
}

/// Emitted artefacts under a project root: everything except sources, Veryl.toml,
/// Veryl.lock and `.build`.
pub fn collect_outputs(prj: &Path, sources: &BTreeMap<String, String>) -> BTreeMap<String, Vec<u8>> {
    let mut out = BTreeMap::new();
    for (rel, data) in fsutil::snapshot(prj) {
        if rel.starts_with(".build/") || rel == "Veryl.toml" || rel == "Veryl.lock" || rel == "Veryl.pub" {
            continue;
        }
        if sources.contains_key(&rel) {
            continue;
        }
        out.insert(rel, normalise(&data, prj));
    }
    out
}

pub fn observe(out: &CmdOut, prj: &Path, sources: &BTreeMap<String, String>) -> Observed {
    Observed {
        exit: out.exit,
        diags: parse_diags(&out.stderr, prj),
        outputs: collect_outputs(prj, sources),
    }
}

/// Pristine reference: the same command on a fresh copy of the sources, with
/// no `.build`, no outputs and a fresh user cache.
pub fn reference(
    scratch_root: &Path,
    n: usize,
    project: &Project,
    args: &[String],
    hashseed: u64,
    now: u64,
    perm_seed: Option<u64>,
) -> (Observed, CmdOut) {
    let base = scratch_root.join("r");
    let _ = std::fs::remove_dir_all(&base);
    let prj = base.join(&project.name);
    let home = base.join("home");
    std::fs::create_dir_all(&home).unwrap();
    std::fs::create_dir_all(prj.join("src")).unwrap();
    fsutil::write_file(&prj.join("Veryl.toml"), project.toml.render(&project.name).as_bytes());
    for (p, c) in &project.files {
        let path = prj.join(p);
        fsutil::write_file(&path, c.as_bytes());
        fsutil::set_mtime(&path, now.saturating_sub(5000));
    }
    let sockdir = scratch_root.join(format!("rc{n}"));
    let mut d = CmdDecider::plain(1);
    d.perm_seed = perm_seed;
    let out = run_cmd(&sockdir, &prj, &home, args, hashseed, now, &mut d);
    let _ = std::fs::remove_dir_all(&sockdir);
    let obs = observe(&out, &prj, &project.files);
    let _ = std::fs::remove_dir_all(&base);
    (obs, out)
}

pub fn toml_key(t: &TomlOpts) -> String {
    format!("{t:?}")
}

/// First difference between the history observation and the reference, by class.
pub fn compare(hist: &Observed, refr: &Observed, emits: bool) -> Option<(String, String)> {
    if hist.exit != refr.exit {
        return Some((
            "exit".into(),
            format!("exit status {:?} but a clean run gives {:?}", hist.exit, refr.exit),
        ));
    }
    // A run that hits an error stops at the first failing stage (fail-fast), so
    // which *warnings* have been derived by then is an artefact of evaluation
    // order (a restored file replays its warnings early, a fresh file derives
    // them late). Both are true diagnostics; what must agree in a failing run
    // is the exit status (above) and the errors.
    let is_err = |b: &String| b.starts_with("Error: ") && !b.contains("veryl check failed");
    let failing = hist.diags.iter().any(is_err) || refr.diags.iter().any(is_err);
    let (hd, rd): (Vec<String>, Vec<String>) = if failing {
        (hist.diags.iter().filter(|b| is_err(b)).cloned().collect(), refr.diags.iter().filter(|b| is_err(b)).cloned().collect())
    } else {
        (hist.diags.clone(), refr.diags.clone())
    };
    let hist = &Observed { exit: hist.exit, diags: hd, outputs: hist.outputs.clone() };
    let refr = &Observed { exit: refr.exit, diags: rd, outputs: refr.outputs.clone() };
    if hist.diags != refr.diags {
        let only_h: Vec<&String> = hist.diags.iter().filter(|d| !refr.diags.contains(d)).collect();
        let only_r: Vec<&String> = refr.diags.iter().filter(|d| !hist.diags.contains(d)).collect();
        let class = if hist.diags.len() > refr.diags.len() && only_h.is_empty() {
            "diag-duplicated"
        } else if only_h.is_empty() {
            "diag-lost"
        } else if only_r.is_empty() {
            "diag-extra"
        } else {
            "diag-differs"
        };
        return Some((
            class.into(),
            format!(
                "diagnostics differ: {} vs clean {}; only in this run: {:?}; only in clean run: {:?}",
                hist.diags.len(),
                refr.diags.len(),
                only_h.iter().map(|s| first_lines(s, 4)).collect::<Vec<_>>(),
                only_r.iter().map(|s| first_lines(s, 4)).collect::<Vec<_>>()
            ),
        ));
    }
    if emits && refr.exit == Some(0) {
        for (rel, data) in &refr.outputs {
            match hist.outputs.get(rel) {
                None => {
                    return Some(("output-missing".into(), format!("{rel} is produced by a clean build but missing here")));
                }
                Some(h) if h != data => {
                    let kind = if rel.ends_with(".f") {
                        "filelist-differs"
                    } else if rel.ends_with(".map") {
                        "map-differs"
                    } else {
                        "output-differs"
                    };
                    return Some((
                        kind.into(),
                        format!(
                            "{rel} differs from a clean build: here {:?} clean {:?}",
                            String::from_utf8_lossy(&h[..h.len().min(300)]),
                            String::from_utf8_lossy(&data[..data.len().min(300)])
                        ),
                    ));
                }
                _ => {}
            }
        }
    }
    None
}

fn first_lines(s: &str, n: usize) -> String {
    s.lines().take(n).collect::<Vec<_>>().join(" | ")
}
