//! C04 — incremental builds produce exactly what a clean build produces.

use crate::hist::{self, RefMemo, RunCtx, Scenario, Violation};
use crate::report::{Found, Reporter};
use wgen::Step;
use serde_json::json;
use simcore::evidence::{Counters, Evidence};
use simcore::rng::{mix, verif_seed, Rng};
use std::collections::BTreeSet;

const CMDS: &[&[&str]] = &[
    &["build"],
    &["build"],
    &["build"],
    &["check"],
    &["check"],
    &["build", "--check"],
    &["clean"],
    &["fmt"],
];

const CMDS_T: &[&[&str]] = &[
    &["build"],
    &["build"],
    &["check"],
    &["test", "--seed", "7", "--format", "json"],
    &["test", "--seed", "7", "--format", "json", "--test", "test_other"],
    &["test", "--seed", "7", "--format", "json", "--define", "DEF_A"],
    &["clean"],
];

pub fn gen_scenario(seed: u64) -> Scenario {
    let mut rng = Rng::new(seed);
    let with_tests = rng.chance(1, 5);
    let g = wgen::gen_project(&mut rng, false, with_tests);
    let len = 3 + rng.below(8);
    let mut steps = wgen::gen_history(&mut rng, &g, len, if with_tests { CMDS_T } else { CMDS });
    // Hand-edited outputs are not among the edits C04 quantifies over (they are C27 states).
    steps.retain(|s| !matches!(s, Step::EditOutput { .. }));
    Scenario {
        project: g.project,
        steps,
        seed,
    }
}

/// Names of generic definitions (`module X::<`, `package X::<`, ...) in a source text.
fn generic_defs(text: &str) -> Vec<String> {
    let mut out = vec![];
    for line in text.lines() {
        let l = line.trim_start().trim_start_matches("pub ");
        for kw in ["module ", "interface ", "package ", "function ", "struct ", "union ", "proto module ", "proto package "] {
            if let Some(rest) = l.strip_prefix(kw) {
                let name: String = rest.chars().take_while(|c| c.is_alphanumeric() || *c == '_').collect();
                if rest[name.len()..].trim_start().starts_with("::<") && !name.is_empty() {
                    out.push(name);
                }
            }
        }
    }
    out
}

/// Multiset of instantiation strings `Name::<...>` of `names` in all files but `except`.
fn instantiations(files: &std::collections::BTreeMap<String, String>, names: &[String], except: &str) -> Vec<String> {
    let mut out = vec![];
    for (p, text) in files {
        if p == except {
            continue;
        }
        for n in names {
            let pat = format!("{n}::<");
            let mut rest = text.as_str();
            while let Some(i) = rest.find(&pat) {
                let tail = &rest[i..];
                let end = tail.find('>').map(|e| e + 1).unwrap_or(tail.len());
                out.push(format!("{p}:{}", &tail[..end]));
                rest = &tail[end..];
            }
        }
    }
    out.sort();
    out
}

/// Identifies the listed known finding "generic-instances-changed-elsewhere":
/// the differing output belongs to an (unchanged) file that defines a generic
/// whose set of instantiations in *other* files changed during the history.
pub fn known_tag(sc: &Scenario, v: &Violation) -> Option<&'static str> {
    if !matches!(v.class.as_str(), "output-differs" | "map-differs" | "output-missing") {
        return None;
    }
    let rel = v.detail.split(": ").nth(1)?.split(' ').next()?.to_string();
    let stem = std::path::Path::new(&rel).file_name()?.to_string_lossy().to_string();
    let stem = stem.trim_end_matches(".map").trim_end_matches(".sv").to_string();
    let bundle = stem == "bundle";
    // Replay the source states of the history.
    let mut files = sc.project.files.clone();
    let mut states = vec![files.clone()];
    for s in sc.steps.iter().take(v.step) {
        match s {
            Step::Write { path, content } => {
                files.insert(path.clone(), content.clone());
            }
            Step::Delete { path } => {
                files.remove(path);
            }
            Step::Rename { from, to } => {
                if let Some(c) = files.remove(from) {
                    files.insert(to.clone(), c);
                }
            }
            _ => {}
        }
        states.push(files.clone());
    }
    let last = states.last()?;
    for (g, text) in last {
        let gstem = std::path::Path::new(g).file_stem()?.to_string_lossy().to_string();
        if !bundle && gstem != stem {
            continue;
        }
        let names = generic_defs(text);
        if names.is_empty() {
            continue;
        }
        let now = instantiations(last, &names, g);
        if states.iter().any(|st| st.get(g) == Some(text) && instantiations(st, &names, g) != now) {
            return Some("generic-instances-changed-elsewhere");
        }
    }
    None
}

pub fn key_of(sc: &Scenario, v: &Violation) -> String {
    if let Some(tag) = known_tag(sc, v) {
        return format!("{}:{tag}", v.class);
    }
    // class + the command that failed + the kind of the edits before it
    let cmd = match sc.steps.get(v.step) {
        Some(Step::Cmd { args }) => args.join(" "),
        _ => String::new(),
    };
    let mut edits: Vec<&str> = sc.steps[..v.step.min(sc.steps.len())]
        .iter()
        .filter_map(|s| match s {
            Step::Write { .. } => Some("write"),
            Step::Delete { .. } => Some("delete"),
            Step::Rename { .. } => Some("rename"),
            Step::Touch { .. } => Some("touch"),
            Step::SetToml { .. } => Some("toml"),
            Step::DeleteOutput { .. } => Some("delete-output"),
            Step::EditOutput { .. } => Some("edit-output"),
            Step::Cmd { .. } => None,
        })
        .collect();
    edits.sort();
    edits.dedup();
    format!("{}@{} after {}", v.class, cmd, edits.join("+"))
}

struct Part {
    evals: u64,
    cmds: u64,
    sim_ms: u64,
    probes: Counters,
    states: BTreeSet<u64>,
    distinct: BTreeSet<u64>,
    found: Vec<(Scenario, Violation)>,
    errors: Vec<String>,
    samples: Vec<serde_json::Value>,
}

pub fn check(tier: &str) -> i32 {
    let seed = verif_seed();
    let n = std::env::var("VERIF_N").ok().and_then(|x| x.parse().ok()).unwrap_or(if tier == "thorough" { 1500 } else { 160 });
    let start = std::time::Instant::now();
    println!("procsim C04 tier={tier} VERIF_SEED={seed} histories={n}");
    let jobs = simcore::pool::workers();
    let parts = simcore::pool::par_map(n, jobs, |i| {
        let sc = gen_scenario(mix(seed, "C04", i as u64));
        let mut memo = RefMemo::new();
        let mut part = Part {
            evals: 1,
            cmds: 0,
            sim_ms: 0,
            probes: Counters::default(),
            states: BTreeSet::new(),
            distinct: BTreeSet::new(),
            found: vec![],
            errors: vec![],
            samples: vec![],
        };
        let mut ctx = RunCtx {
            memo: &mut memo,
            probes: &mut part.probes,
            cmds: &mut part.cmds,
            sim_ms: &mut part.sim_ms,
            states: &mut part.states,
        };
        match hist::run_history(&sc, &mut ctx) {
            Ok(Some(v)) => part.found.push((sc.clone(), v)),
            Ok(None) => {}
            Err(e) => part.errors.push(e),
        }
        if part.probes.get("cmd.restored_some") > 0 {
            part.distinct.insert(simcore::fsutil::hash_u64(format!("{:?}{:?}", sc.project, sc.steps).as_bytes()));
        }
        if std::env::var("C04_SIMLOG").is_ok() {
            eprintln!("SIMLOG {i} sim_ms={} cmds={}", part.sim_ms, part.cmds);
        }
        if i < 3 {
            part.samples.push(json!({"files": sc.project.files.keys().collect::<Vec<_>>(), "toml": sc.project.toml, "steps": sc.steps.iter().map(step_brief).collect::<Vec<_>>()}));
        }
        part
    });
    let mut rep = Reporter::new("C04", seed);
    let mut evals = 0;
    let mut cmds = 0;
    let mut sim_ms = 0;
    let mut probes = Counters::default();
    let mut states = BTreeSet::new();
    let mut distinct = BTreeSet::new();
    let mut samples = vec![];
    let mut found = vec![];
    for p in parts {
        evals += p.evals;
        cmds += p.cmds;
        sim_ms += p.sim_ms;
        probes.merge(&p.probes);
        states.extend(p.states);
        distinct.extend(p.distinct);
        samples.extend(p.samples);
        found.extend(p.found);
        for e in p.errors {
            rep.harness_error(&e);
        }
    }
    // Determinism sample: a few histories twice, identical verdicts and states.
    // Every gate of every command (kind, path, length, content hash, verdict, simulated
    // clock) and every exit status must be identical between two runs of one history.
    let npairs = if tier == "thorough" { 48 } else { 6 };
    let det = simcore::pool::par_map(npairs, jobs, |i| {
        let sc = gen_scenario(mix(seed, "C04", i as u64));
        let run = |sc: &Scenario| {
            hist::TRACE_DIGEST.with(|d| d.set(0));
            let v = run_plain(sc);
            (v, hist::TRACE_DIGEST.with(|d| d.get()))
        };
        (run(&sc), run(&sc))
    });
    let mut det_pairs = 0;
    for (i, (a, b)) in det.into_iter().enumerate() {
        det_pairs += 1;
        if a != b {
            rep.harness_error(&format!("determinism self-check failed on history {i}: {:?}/{:x} vs {:?}/{:x}", a.0, a.1, b.0, b.1));
        }
    }
    let mut seen = BTreeSet::new();
    for (sc, v) in found {
        let key = key_of(&sc, &v);
        if !seen.insert(key.clone()) && rep.is_known(&key).is_none() {
            continue;
        }
        if rep.is_known(&key).is_some() {
            rep.report(Found { key, class: v.class.clone(), detail: v.detail.clone(), replay: json!({}) });
            continue;
        }
        let class = v.class.clone();
        let min = hist::minimise(&sc, &class, 60, &mut |c| run_plain(c).and_then(|x| x));
        let v2 = run_plain(&min).and_then(|x| x).unwrap_or(v.clone());
        let key = key_of(&min, &v2);
        rep.report(Found {
            key,
            class: v2.class.clone(),
            detail: format!("step {}: {}", v2.step, v2.detail),
            replay: json!({"scenario": min}),
        });
    }
    for p in ["cmd.restored_some", "cmd.restored_partial", "cmd.diagnostics_with_restore", "edit.write", "edit.delete", "edit.rename", "edit.touch", "edit.toml"] {
        if probes.get(p) == 0 {
            rep.harness_error(&format!("reach probe {p} stayed at zero"));
        }
    }
    let wall = start.elapsed().as_secs_f64();
    let mut extra = serde_json::Map::new();
    extra.insert("commands_executed".into(), json!(cmds));
    extra.insert("probes".into(), probes.to_json());
    extra.insert("distinct_durable_states".into(), json!(states.len()));
    extra.insert("simulated_time_ms".into(), json!(sim_ms));
    extra.insert("runs_per_hour".into(), json!((evals as f64 / wall * 3600.0) as u64));
    extra.insert("determinism_pairs_checked".into(), json!(det_pairs));
    extra.insert("known_finding_hits".into(), json!(rep.known_hits));
    extra.insert("components".into(), json!({"real": ["veryl CLI binary built from the working tree (main.rs, build/check/test/clean/fmt, Incremental, Store, analyzer, emitter)", "filesystem", "kernel flock"], "simulated": ["clock (add_generated_file and source mtimes)", "RandomState keys (getrandom override)", "process scheduling (single actor parked at every gate)"]}));
    Evidence {
        property_id: "C04".into(),
        tier: tier.into(),
        seed,
        level: "exploration".into(),
        evaluations: evals,
        distinct_nontrivial: distinct.len() as u64,
        rule: "seeded projects from the shape library (1-3 units, 2-7 files, seeded Veryl.toml options) x seeded histories of 3-10 steps (write variant, delete, rename, touch, Veryl.toml change, delete/hand-edit output, build, check, build --check, clean, fmt, test); every build/check/test is compared with the same command on a pristine copy (exit, diagnostics multiset, emitted files, filelist, test report). distinct_nontrivial = distinct histories in which at least one command restored at least one fragment".into(),
        samples,
        extra,
        assumptions: vec![
            "the simulated clock is strictly monotone (mtime-based staleness cannot survive backward clock jumps by construction)".into(),
            "outputs left behind by deleted sources are tolerated (a non-incremental veryl leaves them too)".into(),
        ],
        wall_s: wall,
        violations: rep.violations,
    }
    .write();
    println!("C04: histories={evals} commands={cmds} distinct={} states={} violations={} known={} wall={wall:.1}s", distinct.len(), states.len(), rep.violations, rep.known_hits);
    rep.exit
}

fn step_brief(s: &Step) -> String {
    match s {
        Step::Write { path, content } => format!("write {path} ({} bytes, {})", content.len(), simcore::fsutil::hash_hex(content.as_bytes())),
        Step::Delete { path } => format!("delete {path}"),
        Step::Rename { from, to } => format!("rename {from} -> {to}"),
        Step::Touch { path } => format!("touch {path}"),
        Step::SetToml { toml } => format!("toml target={} sourcemap={} filelist={} extra={:?}", toml.target, toml.sourcemap, toml.filelist, toml.extra_build),
        Step::DeleteOutput { path } => format!("delete-output {path}"),
        Step::EditOutput { path } => format!("hand-edit-output {path}"),
        Step::Cmd { args } => format!("veryl {}", args.join(" ")),
    }
}

/// Runs a scenario with throw-away statistics. Outer None = harness error.
pub fn run_plain(sc: &Scenario) -> Option<Option<Violation>> {
    let mut memo = RefMemo::new();
    let mut probes = Counters::default();
    let (mut cmds, mut sim_ms) = (0, 0);
    let mut states = BTreeSet::new();
    let mut ctx = RunCtx {
        memo: &mut memo,
        probes: &mut probes,
        cmds: &mut cmds,
        sim_ms: &mut sim_ms,
        states: &mut states,
    };
    hist::run_history(sc, &mut ctx).ok()
}

pub fn replay(path: &str) -> i32 {
    let text = std::fs::read_to_string(path).expect("read replay");
    let v: serde_json::Value = serde_json::from_str(&text).expect("parse replay");
    let sc: Scenario = serde_json::from_value(v["scenario"].clone()).expect("scenario");
    let r = run_plain(&sc);
    match r {
        None => {
            eprintln!("harness error during replay");
            2
        }
        Some(v) => Reporter::replay_result("C04", path, v.map(|v| (v.class, format!("step {}: {}", v.step, v.detail)))),
    }
}

impl PartialEq for Violation {
    fn eq(&self, o: &Self) -> bool {
        self.class == o.class && self.step == o.step && self.detail == o.detail
    }
}

/// Dev helper: every variant of every slot builds as the library intends.
pub fn validate_shapes() -> i32 {
    let units = wgen::shapes::units();
    let mut bad = 0;
    for u in &units {
        for (si, s) in u.slots.iter().enumerate() {
            for (vi, _) in s.variants.iter().enumerate() {
                let mut files = std::collections::BTreeMap::new();
                for (sj, t) in u.slots.iter().enumerate() {
                    files.insert(t.path.to_string(), t.variants[if sj == si { vi } else { 0 }].to_string());
                }
                let project = wgen::Project { name: "prj".into(), files, toml: wgen::TomlOpts::default() };
                for cmd in [vec!["build".to_string()], vec!["check".to_string()]] {
                    let (obs, out) = crate::world::reference(&simcore::fsutil::Scratch::new("vs").path, 0, &project, &cmd, 1, crate::world::EPOCH_MS, None);
                    let first = obs.diags.iter().map(|d| d.lines().next().unwrap_or("").to_string()).collect::<Vec<_>>();
                    println!("{}/{}[{}] {:?}: exit={:?} outputs={} diags={:?}", u.name, s.path, vi, cmd, obs.exit, obs.outputs.len(), first);
                    if vi == 0 && obs.exit != Some(0) {
                        bad += 1;
                        println!("  !! variant 0 must be clean:\n{}", out.stderr);
                    }
                    if out.panicked() {
                        println!("  !! panicked: {}", out.stderr);
                    }
                }
            }
        }
        if u.has_tests {
            let mut files = std::collections::BTreeMap::new();
            for t in &u.slots {
                files.insert(t.path.to_string(), t.variants[0].to_string());
            }
            let project = wgen::Project { name: "prj".into(), files, toml: wgen::TomlOpts::default() };
            let cmd: Vec<String> = ["test", "--seed", "7", "--format", "json"].iter().map(|s| s.to_string()).collect();
            let (obs, out) = crate::world::reference(&simcore::fsutil::Scratch::new("vs").path, 0, &project, &cmd, 1, crate::world::EPOCH_MS, None);
            println!("{} test: exit={:?} report={:?}\nstdout={}\nstderr={}", u.name, obs.exit, hist::parse_test_report(&out.stdout), out.stdout, out.stderr);
        }
    }
    if bad > 0 { 2 } else { 0 }
}
