//! procsim — multi-process deterministic simulator for the veryl CLI.
//! `procsim <ID> [quick|thorough]`, `procsim <ID> --replay <file>`.

mod c04;
mod c05;
mod c24;
mod c27;
mod c30;
mod c32;
mod hist;
mod report;
mod world;

fn main() {
    for (k, v) in [("GIT_AUTHOR_NAME", "veryl"), ("GIT_AUTHOR_EMAIL", "veryl"), ("GIT_COMMITTER_NAME", "veryl"), ("GIT_COMMITTER_EMAIL", "veryl")] {
        unsafe { std::env::set_var(k, v) };
    }
    let args: Vec<String> = std::env::args().collect();
    let id = args.get(1).cloned().unwrap_or_default();
    let mode = args.get(2).cloned().unwrap_or_else(|| "quick".into());
    let code = match (id.as_str(), mode.as_str()) {
        ("validate-shapes", _) => c04::validate_shapes(),
        ("trace-c30", i) => {
            // dev helper: first scenario of the given kind index >= i that is a git-dependency one
            let seed = simcore::rng::verif_seed();
            let mut k: u64 = i.parse().unwrap_or(0);
            loop {
                let sc = c30::gen_scenario(simcore::rng::mix(seed, "C30", k));
                if sc.kind == "shared-git-dependency" {
                    let mut n = 0;
                    let o = c30::run(&sc, &mut n);
                    println!("scenario {k}: {:?}", o.map(|o| o.violation));
                    break;
                }
                k += 1;
            }
            0
        }
        ("det-c30", i) => {
            // dev helper: run scenario <i> of the current seed several times, compare the gate traces
            let sc = c30::gen_scenario(simcore::rng::mix(simcore::rng::verif_seed(), "C30", i.parse().unwrap_or(0)));
            let reps: usize = args.get(3).and_then(|x| x.parse().ok()).unwrap_or(3);
            let mut first: Option<String> = None;
            for r in 0..reps {
                let f = format!("/tmp/det-c30-{r}.trace");
                unsafe { std::env::set_var("C30_TRACE_FILE", &f) };
                let mut n = 0;
                let o = c30::run(&sc, &mut n);
                let t = std::fs::read_to_string(&f).unwrap_or_default();
                println!("rep {r}: kind={} gates={} result={:?}", sc.kind, t.lines().count(), o.map(|o| o.violation));
                match &first {
                    None => first = Some(t),
                    Some(a) => {
                        if let Some((k, (x, y))) = a.lines().zip(t.lines()).enumerate().find(|(_, (x, y))| x != y) {
                            println!("  diverges at gate {k}: `{x}` vs `{y}`");
                        } else if a.lines().count() != t.lines().count() {
                            println!("  same prefix, other length");
                        }
                    }
                }
            }
            0
        }
        ("trace-c04", i) => {
            // dev helper: run history <i> of the current seed once (PROCSIM_TRACE_DUMP=<file> records every gate)
            let sc = c04::gen_scenario(simcore::rng::mix(simcore::rng::verif_seed(), "C04", i.parse().unwrap_or(0)));
            println!("{:?}", c04::run_plain(&sc));
            0
        }
        ("C04", "--replay") => c04::replay(&args[3]),
        ("C04", tier) => c04::check(tier),
        ("C24", "--replay") => c24::replay(&args[3]),
        ("C24", tier) => c24::check(tier),
        ("C32", "--replay") => c32::replay("C32", &args[3]),
        ("C32", tier) => c32::check("C32", tier),
        ("C34", "--replay") => c32::replay("C34", &args[3]),
        ("C34", tier) => c32::check("C34", tier),
        ("C30", "--replay") => c30::replay(&args[3]),
        ("C30", tier) => c30::check(tier),
        ("C27", "--replay") => c27::replay(&args[3]),
        ("C27", tier) => c27::check(tier),
        ("C05", "--replay") => c05::replay(&args[3]),
        ("C05", tier) => c05::check(tier),
        _ => {
            eprintln!("usage: procsim <C04|C05|C24|C27|C30|C32|C34> [quick|thorough|--replay <file>]");
            2
        }
    };
    simcore::fsutil::cleanup_scratch_root();
    std::process::exit(code);
}
