fn main() {}
