//! C27 — check modes agree with write modes.
//!
//! At states reached by seeded histories (stale, missing and hand-edited
//! outputs, `check` having advanced the manifest, bundle targets) the tree is
//! snapshotted; `veryl build --check` runs on the snapshot, the snapshot is
//! restored to the same simulated instant, and `veryl build` runs. The check
//! must pass exactly when the write left every emitted `.sv` (or the bundle)
//! unchanged. Same for `veryl fmt --check` against `veryl fmt` on the sources.

use crate::hist::{self, RefMemo, RunCtx, Scenario};
use crate::report::{Found, Reporter};
use crate::world::{CmdDecider, World};
use serde::{Deserialize, Serialize};
use serde_json::json;
use simcore::evidence::{Counters, Evidence};
use simcore::rng::{mix, verif_seed, Rng};
use std::collections::{BTreeMap, BTreeSet};
use wgen::Step;

#[derive(Clone, Debug, Serialize, Deserialize)]
pub struct C27Scenario {
    pub base: Scenario,
    /// "build" or "fmt"
    pub mode: String,
}

fn s(v: &[&str]) -> Vec<String> {
    v.iter().map(|x| x.to_string()).collect()
}

const CMDS: &[&[&str]] = &[&["build"], &["build"], &["check"], &["build", "--check"], &["clean"], &["fmt"]];

pub fn gen_scenario(seed: u64) -> C27Scenario {
    let mut rng = Rng::new(seed);
    let clean = rng.chance(1, 2);
    let g = wgen::gen_project(&mut rng, clean, false);
    let len = 2 + rng.below(7);
    let mut steps = wgen::gen_history(&mut rng, &g, len, CMDS);
    // End in an editor action more often than not, so that the probed state is "dirty".
    if rng.chance(2, 3) {
        let slots: Vec<&wgen::Slot> = g.units.iter().flat_map(|u| u.slots.iter()).collect();
        let slot = *rng.pick(&slots);
        let out = wgen::output_of(&g.project.toml, slot.path);
        steps.push(match rng.below(5) {
            0 => Step::EditOutput { path: out },
            1 => Step::DeleteOutput { path: out },
            2 => Step::Touch { path: slot.path.to_string() },
            _ => Step::Write { path: slot.path.to_string(), content: rng.pick(&slot.variants).to_string() },
        });
    }
    let mode = if rng.chance(1, 4) { "fmt" } else { "build" };
    // fmt states want unformatted sources now and then
    if mode == "fmt" {
        let slots: Vec<&wgen::Slot> = g.units.iter().flat_map(|u| u.slots.iter()).collect();
        let slot = *rng.pick(&slots);
        let ugly = slot.variants[0].replace("    ", "  ").replace(" = ", "  =  ");
        if rng.chance(2, 3) {
            steps.push(Step::Write { path: slot.path.to_string(), content: ugly });
        }
        // ... and files whose layout depends on a formatter attribute (fmt(skip) around a
        // hand-made layout, fmt(compact) on an expanded instance)
        if rng.chance(1, 2) {
            for u in wgen::shapes::units() {
                if u.name == "fmtattr" {
                    for sl in &u.slots {
                        steps.push(Step::Write { path: sl.path.to_string(), content: rng.pick(&sl.variants).to_string() });
                    }
                }
            }
        }
    }
    C27Scenario { base: Scenario { project: g.project, steps, seed }, mode: mode.into() }
}

fn sv_files(w: &World) -> BTreeMap<String, Vec<u8>> {
    let mut m = BTreeMap::new();
    for (rel, data) in simcore::fsutil::snapshot(&w.prj) {
        if rel.starts_with(".build/") {
            continue;
        }
        if rel.ends_with(".sv") {
            m.insert(rel, data);
        }
    }
    m
}

fn veryl_files(w: &World) -> BTreeMap<String, Vec<u8>> {
    simcore::fsutil::snapshot(&w.prj).into_iter().filter(|(k, _)| k.ends_with(".veryl")).collect()
}

pub struct Outcome {
    pub violation: Option<(String, String)>,
    pub skipped: Option<&'static str>,
    pub check_passed: bool,
    pub changed: usize,
}

pub fn run(sc: &C27Scenario, ctx: &mut RunCtx) -> Result<Outcome, String> {
    let mut w = World::at(&sc.base.project, hist::scenario_key(&sc.base) ^ 0x27);
    // Histories may pass through C04 findings; C27 only needs the state.
    for (i, step) in sc.base.steps.iter().enumerate() {
        match step {
            Step::Cmd { args } => {
                let hashseed = hist::hashseed_for(&w.project, args);
                let mut d = CmdDecider::plain(2 + i as u64);
                let out = w.run(args, hashseed, &mut d);
                *ctx.cmds += 1;
                if let Some(e) = out.harness_error {
                    return Err(e);
                }
                if args.first().map(|x| x.as_str()) == Some("fmt") && !args.iter().any(|a| a == "--check") {
                    w.adopt_sources();
                }
            }
            other => w.apply_edit(other, 1000 + 977 * i as u64),
        }
    }
    let snap = w.snapshot("snap27");
    let (now, project, count) = (w.now, w.project.clone(), w.cmd_count);
    let (check_args, write_args) = if sc.mode == "fmt" { (s(&["fmt", "--check"]), s(&["fmt"])) } else { (s(&["build", "--check"]), s(&["build"])) };
    let hashseed = hist::hashseed_for(&w.project, &write_args);
    let mut d = CmdDecider::plain(3);
    let chk = w.run(&check_args, hashseed, &mut d);
    *ctx.cmds += 1;
    if let Some(e) = chk.harness_error {
        return Err(e);
    }
    if chk.panicked() {
        return Ok(Outcome { violation: Some(("panic".into(), format!("{check_args:?} panicked: {}", hist::tail(&chk.stderr, 400)))), skipped: None, check_passed: false, changed: 0 });
    }
    w.restore(&snap);
    w.now = now;
    w.project = project;
    w.cmd_count = count + 10;
    let before = if sc.mode == "fmt" { veryl_files(&w) } else { sv_files(&w) };
    let mut d = CmdDecider::plain(3);
    let wr = w.run(&write_args, hashseed, &mut d);
    *ctx.cmds += 1;
    if let Some(e) = wr.harness_error {
        return Err(e);
    }
    if wr.panicked() {
        return Ok(Outcome { violation: Some(("panic".into(), format!("{write_args:?} panicked: {}", hist::tail(&wr.stderr, 400)))), skipped: None, check_passed: false, changed: 0 });
    }
    if wr.exit != Some(0) {
        // The write mode itself fails (analysis or parse error): the property says nothing.
        return Ok(Outcome { violation: None, skipped: Some("write-mode-fails"), check_passed: chk.exit == Some(0), changed: 0 });
    }
    let after = if sc.mode == "fmt" { veryl_files(&w) } else { sv_files(&w) };
    let mut changed = vec![];
    for (k, v) in &after {
        match before.get(k) {
            Some(b) if b == v => {}
            // a missing file and an empty file are not told apart
            None if v.is_empty() => {}
            _ => changed.push(k.clone()),
        }
    }
    let passed = chk.exit == Some(0);
    ctx.probes.inc(if passed { "state.check_passes" } else { "state.check_fails" });
    ctx.probes.inc(if changed.is_empty() { "state.write_changes_nothing" } else { "state.write_changes_something" });
    let violation = if passed && !changed.is_empty() {
        Some((format!("{}-check-passes-but-write-changes", sc.mode), format!("`veryl {}` exits 0 but `veryl {}` changed {:?}", check_args.join(" "), write_args.join(" "), changed)))
    } else if !passed && changed.is_empty() {
        Some((format!("{}-check-fails-but-write-changes-nothing", sc.mode), format!("`veryl {}` exits {:?} but `veryl {}` left every file unchanged; check stderr: {}", check_args.join(" "), chk.exit, write_args.join(" "), hist::tail(&chk.stderr, 300))))
    } else {
        None
    };
    Ok(Outcome { violation, skipped: None, check_passed: passed, changed: changed.len() })
}

fn run_plain(sc: &C27Scenario) -> Option<Outcome> {
    let mut memo = RefMemo::new();
    let mut probes = Counters::default();
    let (mut cmds, mut sim_ms) = (0, 0);
    let mut states = BTreeSet::new();
    let mut ctx = RunCtx { memo: &mut memo, probes: &mut probes, cmds: &mut cmds, sim_ms: &mut sim_ms, states: &mut states };
    run(sc, &mut ctx).ok()
}

pub fn check(tier: &str) -> i32 {
    let seed = verif_seed();
    let n = std::env::var("VERIF_N").ok().and_then(|x| x.parse().ok()).unwrap_or(if tier == "thorough" { 2000 } else { 160 });
    let start = std::time::Instant::now();
    println!("procsim C27 tier={tier} VERIF_SEED={seed} states={n}");
    let jobs = simcore::pool::workers();
    struct Part {
        cmds: u64,
        probes: Counters,
        distinct: BTreeSet<u64>,
        found: Vec<(C27Scenario, String, String)>,
        errors: Vec<String>,
        sample: Option<serde_json::Value>,
    }
    let parts = simcore::pool::par_map(n, jobs, |i| {
        let sc = gen_scenario(mix(seed, "C27", i as u64));
        let mut memo = RefMemo::new();
        let mut part = Part { cmds: 0, probes: Counters::default(), distinct: BTreeSet::new(), found: vec![], errors: vec![], sample: None };
        let mut sim_ms = 0;
        let mut states = BTreeSet::new();
        let mut ctx = RunCtx { memo: &mut memo, probes: &mut part.probes, cmds: &mut part.cmds, sim_ms: &mut sim_ms, states: &mut states };
        match run(&sc, &mut ctx) {
            Ok(o) => {
                if let Some(r) = o.skipped {
                    ctx.probes.inc(&format!("skipped.{r}"));
                } else {
                    // non-trivial: the state was dirty in some way (check failed or write changed)
                    if !o.check_passed || o.changed > 0 {
                        part.distinct.insert(simcore::fsutil::hash_u64(format!("{sc:?}").as_bytes()));
                    }
                    ctx.probes.inc(&format!("mode.{}", sc.mode));
                }
                if let Some((c, d)) = o.violation {
                    part.found.push((sc.clone(), c, d));
                }
            }
            Err(e) => part.errors.push(e),
        }
        if i < 3 {
            part.sample = Some(json!({"mode": sc.mode, "files": sc.base.project.files.keys().collect::<Vec<_>>(), "target": sc.base.project.toml.target, "steps": sc.base.steps.iter().map(|s| format!("{s:?}").chars().take(70).collect::<String>()).collect::<Vec<_>>()}));
        }
        part
    });
    let mut rep = Reporter::new("C27", seed);
    let mut cmds = 0;
    let mut probes = Counters::default();
    let mut distinct = BTreeSet::new();
    let mut samples = vec![];
    let mut found = vec![];
    for p in parts {
        cmds += p.cmds;
        probes.merge(&p.probes);
        distinct.extend(p.distinct);
        samples.extend(p.sample);
        found.extend(p.found);
        for e in p.errors {
            rep.harness_error(&e);
        }
    }
    let mut seen = BTreeSet::new();
    for (sc, class, detail) in found {
        let key = format!("{class}|target={}", sc.base.project.toml.target);
        let known = rep.is_known(&key).is_some();
        if !seen.insert(key.clone()) && !known {
            continue;
        }
        if known {
            rep.report(Found { key, class, detail, replay: json!({}) });
            continue;
        }
        // minimise: drop history steps while the class persists
        let mut best = sc.clone();
        let mut i = 0;
        let mut budget = 40;
        while i < best.base.steps.len() && budget > 0 {
            let mut cand = best.clone();
            cand.base.steps.remove(i);
            budget -= 1;
            if run_plain(&cand).and_then(|o| o.violation).is_some_and(|v| v.0 == class) {
                best = cand;
            } else {
                i += 1;
            }
        }
        rep.report(Found { key, class, detail, replay: json!({"scenario": best}) });
    }
    for p in ["state.check_passes", "state.check_fails", "state.write_changes_nothing", "state.write_changes_something", "mode.build", "mode.fmt"] {
        if probes.get(p) == 0 {
            rep.harness_error(&format!("reach probe {p} stayed at zero"));
        }
    }
    let wall = start.elapsed().as_secs_f64();
    let mut extra = serde_json::Map::new();
    extra.insert("commands_executed".into(), json!(cmds));
    extra.insert("probes".into(), probes.to_json());
    extra.insert("runs_per_hour".into(), json!((n as f64 / wall * 3600.0) as u64));
    extra.insert("components".into(), json!({"real": ["veryl CLI binary (build, build --check, fmt, fmt --check, check, clean) with cache, info.toml and output tree"], "simulated": ["clock", "RandomState keys", "the instant: both modes run from the same restored snapshot"]}));
    Evidence {
        property_id: "C27".into(),
        tier: tier.into(),
        seed,
        level: "exploration".into(),
        evaluations: n as u64,
        distinct_nontrivial: distinct.len() as u64,
        rule: "seeded histories (edits, build, check, build --check, clean, fmt; ending in a write/touch/delete-output/hand-edit-output more often than not; directory/source/bundle targets) produce a state; from the same restored snapshot `build --check` (or `fmt --check`) and `build` (or `fmt`) are run and check-exit==0 is compared with 'no emitted .sv / no source changed'. distinct_nontrivial = distinct states where the check failed or the write changed something".into(),
        samples,
        extra,
        assumptions: vec![
            "states where the write mode itself exits non-zero (analysis/parse error) are skipped: the property does not say what check must do there".into(),
            ".sv.map files and the filelist are outside the comparison; a missing output and an empty output are not told apart".into(),
        ],
        wall_s: wall,
        violations: rep.violations,
    }
    .write();
    println!("C27: states={n} commands={cmds} distinct={} violations={} known={} wall={wall:.1}s", distinct.len(), rep.violations, rep.known_hits);
    rep.exit
}

pub fn replay(path: &str) -> i32 {
    let text = std::fs::read_to_string(path).expect("read replay");
    let v: serde_json::Value = serde_json::from_str(&text).expect("parse replay");
    let sc: C27Scenario = serde_json::from_value(v["scenario"].clone()).expect("scenario");
    match run_plain(&sc) {
        None => 2,
        Some(o) => Reporter::replay_result("C27", path, o.violation),
    }
}
