//! History scenarios (C04, and the substrate of C05/C27): a project, a list of
//! editor steps and veryl commands, executed against the real CLI with the
//! simulated clock, each command compared with a pristine reference run.

use crate::world::{self, CmdDecider, CmdOut, Observed, World};
use wgen::{Project, Step};
use serde::{Deserialize, Serialize};
use simcore::evidence::Counters;
use simcore::rng::splitmix;
use std::collections::BTreeMap;

#[derive(Clone, Debug, Serialize, Deserialize)]
pub struct Scenario {
    pub project: Project,
    pub steps: Vec<Step>,
    pub seed: u64,
}

#[derive(Clone, Debug, Serialize, Deserialize)]
pub struct Violation {
    pub class: String,
    pub step: usize,
    pub detail: String,
}

/// Per-test verdicts of a `veryl test --format json` report, timing dropped.
pub fn parse_test_report(stdout: &str) -> Option<Vec<String>> {
    let start = stdout.find('{')?;
    let v: serde_json::Value = serde_json::from_str(stdout[start..].trim()).ok()?;
    let tests = v.get("tests")?.as_array()?;
    let mut out = vec![];
    for t in tests {
        out.push(format!(
            "{}|{}|{}|{}",
            t.get("name").and_then(|x| x.as_str()).unwrap_or(""),
            t.get("status").and_then(|x| x.as_str()).unwrap_or(""),
            t.get("message").map(|x| x.to_string()).unwrap_or_default(),
            t.get("output").map(|x| x.to_string()).unwrap_or_default()
        ));
    }
    out.sort();
    Some(out)
}

pub fn restored_of(stderr: &str) -> Option<(usize, usize)> {
    for l in stderr.lines() {
        if let Some(i) = l.find("Restored ") {
            let rest = &l[i + 9..];
            let frac = rest.split_whitespace().next()?;
            let mut it = frac.split('/');
            let a = it.next()?.parse().ok()?;
            let b = it.next()?.parse().ok()?;
            return Some((a, b));
        }
    }
    None
}

pub fn hashseed_for(project: &Project, args: &[String]) -> u64 {
    let key = format!("{:?}|{:?}|{:?}", project.files, project.toml, args);
    1 + simcore::fsutil::hash_u64(key.as_bytes()) % 1_000_000
}

pub type RefMemo = BTreeMap<u64, (Observed, Option<Vec<String>>, bool)>;

pub struct RunCtx<'a> {
    pub memo: &'a mut RefMemo,
    pub probes: &'a mut Counters,
    pub cmds: &'a mut u64,
    pub sim_ms: &'a mut u64,
    pub states: &'a mut std::collections::BTreeSet<u64>,
}

thread_local! {
    /// Running digest of every gate (actor, kind, normalised path, len, hash, verdict, clock)
    /// released to history commands on this thread: the determinism self-check compares it.
    pub static TRACE_DIGEST: std::cell::Cell<u64> = const { std::cell::Cell::new(0) };
}

pub fn fold_trace(out: &CmdOut, root: &std::path::Path) {
    let root = root.to_string_lossy().to_string();
    let mut h = TRACE_DIGEST.with(|d| d.get());
    for t in &out.trace {
        // Known leaks, normalised: the bundle staging directory has a random temp name, and
        // veryl records the staged paths in info.toml (so its content hash carries the name).
        let mut path = t.path.replace(&root, "$ROOT");
        if let Some(i) = path.find("/.tmp") {
            let end = (i + 11).min(path.len());
            path.replace_range(i..end, "/.tmpXXXXXX");
        }
        // aot gates carry the address of the compiled cell (ASLR) and whether the real compile
        // had finished on arrival (wall clock): neither is part of the schedule
        // ... and the duration gate carries the measured duration as its default
        let aot = t.kind.starts_with("aot.") || t.kind == "choice.test.duration_us";
        let hash = if t.kind == "info.data" || t.kind == "info.read" || aot { 0 } else { t.hash };
        let len = if t.kind.starts_with("aot.") { 0 } else { t.len };
        let line = format!("{}|{}|{}|{}|{}|{:?}|{}", t.actor, t.kind, path, len, hash, t.verdict, t.now);
        h = simcore::rng::splitmix(h ^ simcore::fsutil::fnv(line.as_bytes()));
        if let Ok(p) = std::env::var("PROCSIM_TRACE_DUMP") {
            use std::io::Write;
            if let Ok(mut f) = std::fs::OpenOptions::new().create(true).append(true).open(p) {
                let _ = writeln!(f, "{line}");
            }
        }
    }
    h = simcore::rng::splitmix(h ^ simcore::fsutil::fnv(format!("{:?}", out.exit).as_bytes()));
    TRACE_DIGEST.with(|d| d.set(h));
}

/// Runs the reference for the current project state and command (memoised).
pub fn reference_for(
    w: &World,
    args: &[String],
    ctx: &mut RunCtx,
) -> (Observed, Option<Vec<String>>, bool) {
    let hashseed = hashseed_for(&w.project, args);
    let key = simcore::fsutil::hash_u64(format!("{:?}|{:?}|{:?}", w.project.files, w.project.toml, args).as_bytes());
    if let Some(x) = ctx.memo.get(&key) {
        ctx.probes.inc("reference.memo_hit");
        return x.clone();
    }
    let (obs, out) = world::reference(&w.scratch.path, w.cmd_count, &w.project, args, hashseed, w.now, None);
    *ctx.cmds += 1;
    let tests = if args.first().map(|s| s.as_str()) == Some("test") {
        parse_test_report(&out.stdout)
    } else {
        None
    };
    let bad = out.harness_error.is_some() || out.panicked();
    let r = (obs, tests, bad);
    ctx.memo.insert(key, r.clone());
    r
}

pub fn is_emitting(args: &[String]) -> bool {
    match args.first().map(|s| s.as_str()) {
        Some("build") => !args.iter().any(|a| a == "--check"),
        Some("test") => true,
        _ => false,
    }
}

/// C04 states its equality for `veryl build` and `veryl check`; `test`, `clean`,
/// `fmt` and `build --check` steps are part of the histories but only have to
/// leave a state from which the next build/check is right (and never panic).
pub fn is_compared(args: &[String]) -> bool {
    matches!(args.first().map(|s| s.as_str()), Some("build") | Some("check"))
        && !args.iter().any(|a| a == "--check")
}

/// Executes one command of a history in the world and compares it with the
/// reference. Returns the command output and an optional violation.
pub fn exec_and_compare(
    w: &mut World,
    args: &[String],
    step: usize,
    seed: u64,
    ctx: &mut RunCtx,
) -> Result<(CmdOut, Option<Violation>), String> {
    let hashseed = hashseed_for(&w.project, args);
    let tick = 1 + splitmix(seed ^ (step as u64) << 8) % 50;
    let mut d = CmdDecider::plain(tick);
    let out = w.run(args, hashseed, &mut d);
    *ctx.cmds += 1;
    if let Some(e) = &out.harness_error {
        return Err(format!("step {step} {args:?}: {e}"));
    }
    fold_trace(&out, &w.prj);
    if out.panicked() {
        return Ok((
            out.clone(),
            Some(Violation {
                class: "panic".into(),
                step,
                detail: format!("{args:?} panicked or died: exit {:?}: {}", out.exit, tail(&out.stderr, 600)),
            }),
        ));
    }
    if let Some((a, b)) = restored_of(&out.stderr) {
        if a > 0 {
            ctx.probes.inc("cmd.restored_some");
        }
        if a > 0 && a < b {
            ctx.probes.inc("cmd.restored_partial");
        }
        if a == b && b > 0 {
            ctx.probes.inc("cmd.restored_all");
        }
        ctx.probes.add("files.restored", a as u64);
        ctx.probes.add("files.analysed_fresh", (b - a) as u64);
    }
    match args.first().map(|s| s.as_str()) {
        Some("fmt") if !args.iter().any(|a| a == "--check") => w.adopt_sources(),
        _ => {}
    }
    if !is_compared(args) {
        return Ok((out, None));
    }
    let (robs, rtests, rbad) = reference_for(w, args, ctx);
    if rbad {
        // The clean run itself panics: a C11 matter, not a history effect.
        ctx.probes.inc("reference.panicked");
        return Ok((out, None));
    }
    let hobs = world::observe(&out, &w.prj, &w.project.files);
    ctx.states.insert(simcore::fsutil::hash_u64(format!("{:?}", hobs.outputs.keys().collect::<Vec<_>>()).as_bytes()) ^ simcore::fsutil::hash_u64(&std::fs::read(w.prj.join(".build/cache/manifest.toml")).unwrap_or_default()));
    let emits = is_emitting(args);
    if !hobs.diags.is_empty() && restored_of(&out.stderr).is_some_and(|(a, _)| a > 0) {
        ctx.probes.inc("cmd.diagnostics_with_restore");
    }
    if let Some((class, detail)) = world::compare(&hobs, &robs, emits) {
        return Ok((
            out,
            Some(Violation {
                class,
                step,
                detail: format!("{args:?}: {detail}"),
            }),
        ));
    }
    if args.first().map(|s| s.as_str()) == Some("test") {
        let htests = parse_test_report(&out.stdout);
        if htests != rtests {
            return Ok((
                out,
                Some(Violation {
                    class: "test-report".into(),
                    step,
                    detail: format!("{args:?}: test report {htests:?} but clean run gives {rtests:?}"),
                }),
            ));
        }
    }
    Ok((out, None))
}

pub fn tail(s: &str, n: usize) -> String {
    let c: Vec<char> = s.chars().collect();
    c[c.len().saturating_sub(n)..].iter().collect()
}

pub fn scenario_key(sc: &Scenario) -> u64 {
    simcore::fsutil::hash_u64(format!("{:?}|{:?}|{}", sc.project, sc.steps, sc.seed).as_bytes())
}

/// Runs a whole history; stops at the first violation.
pub fn run_history(sc: &Scenario, ctx: &mut RunCtx) -> Result<Option<Violation>, String> {
    let mut w = World::at(&sc.project, scenario_key(sc));
    let r = run_history_in(&mut w, sc, ctx);
    *ctx.sim_ms += w.now - world::EPOCH_MS;
    r
}

pub fn run_history_in(w: &mut World, sc: &Scenario, ctx: &mut RunCtx) -> Result<Option<Violation>, String> {
    for (i, step) in sc.steps.iter().enumerate() {
        match step {
            Step::Cmd { args } => {
                let (_, v) = exec_and_compare(w, args, i, sc.seed, ctx)?;
                if v.is_some() {
                    return Ok(v);
                }
            }
            other => {
                // Simulated time between user actions: 1 ms .. ~1 day.
                let r = splitmix(sc.seed ^ (i as u64).wrapping_mul(0x9e37));
                let tick = match r % 4 {
                    0 => 1 + r % 10,
                    1 => 1_000 + r % 60_000,
                    2 => 3_600_000 + r % 3_600_000,
                    _ => 1 + r % 86_400_000,
                };
                w.apply_edit(other, tick);
                ctx.probes.inc(match other {
                    Step::Write { .. } => "edit.write",
                    Step::Delete { .. } => "edit.delete",
                    Step::Rename { .. } => "edit.rename",
                    Step::Touch { .. } => "edit.touch",
                    Step::SetToml { .. } => "edit.toml",
                    Step::DeleteOutput { .. } => "edit.delete_output",
                    Step::EditOutput { .. } => "edit.hand_edit_output",
                    Step::Cmd { .. } => "cmd",
                });
            }
        }
    }
    Ok(None)
}

/// Delta-debugging over steps: drop steps while the same violation class persists.
pub fn minimise(sc: &Scenario, class: &str, budget: usize, f: &mut dyn FnMut(&Scenario) -> Option<Violation>) -> Scenario {
    let mut best = sc.clone();
    let mut evals = 0;
    let mut changed = true;
    while changed && evals < budget {
        changed = false;
        let mut i = 0;
        while i < best.steps.len() && evals < budget {
            let mut cand = best.clone();
            cand.steps.remove(i);
            evals += 1;
            if f(&cand).is_some_and(|v| v.class == class) {
                best = cand;
                changed = true;
            } else {
                i += 1;
            }
        }
        // Drop files no step or survivor needs.
        let names: Vec<String> = best.project.files.keys().cloned().collect();
        for n in names {
            if evals >= budget {
                break;
            }
            let mut cand = best.clone();
            cand.project.files.remove(&n);
            evals += 1;
            if f(&cand).is_some_and(|v| v.class == class) {
                best = cand;
                changed = true;
            }
        }
    }
    // Truncate after the failing step.
    if let Some(v) = f(&best) {
        best.steps.truncate(v.step + 1);
    }
    best
}
