//! C32 — test results do not depend on scheduling; C34 — reusing converted
//! modules across tests is invisible.
//!
//! One real `veryl test --format json --seed s` process. The scheduler owns
//! the worker count (choice hook), the dispatch order (it writes
//! `.build/test_timings`, the input of longest-first sorting) and the
//! assignment (all workers park at the queue gate; exactly one is released,
//! pops the next test, runs it to completion and parks again).

use crate::hist;
use crate::report::{Found, Reporter};
use crate::world::{CmdDecider, World};
use serde::{Deserialize, Serialize};
use serde_json::json;
use simcore::evidence::{Counters, Evidence};
use simcore::rng::{mix, verif_seed, Rng};
use std::collections::{BTreeMap, BTreeSet};
use wgen::{Project, TomlOpts};

const DUT: &str = include_str!("testprj/dut.veryl");
const TESTS: &str = include_str!("testprj/tests.veryl");
pub const TEST_NAMES: [&str; 13] = ["t_a", "t_b", "t_c", "t_d", "t_e", "t_f", "t_g", "t_h", "t_i", "t_j", "t_k", "t_l", "t_m"];

#[derive(Clone, Debug, Serialize, Deserialize)]
pub struct TestScenario {
    /// 0: one file with all tests; 1: tests split over three files; 2: DUT declared last.
    pub layout: u8,
    pub test_seed: u64,
    pub workers: u64,
    /// Dispatch order induced through the timings file; tests not listed have no history.
    pub order: Vec<String>,
    /// Worker picks (indices into the sorted parked-actor list); then seeded.
    pub picks: Vec<usize>,
    pub pick_seed: u64,
    pub backend: String,
    /// VERYL_DUT_REUSE_MIN_BYTES for the run (None = the default floor of 256).
    #[serde(default)]
    pub reuse_floor: Option<u64>,
}

fn split_tests() -> Vec<String> {
    // Each test is a `#[test(..)] module .. {}` block separated by a blank line before `#[test`.
    let mut out = vec![];
    let mut cur = String::new();
    for line in TESTS.lines() {
        if line.starts_with("#[test(") && !cur.trim().is_empty() {
            out.push(std::mem::take(&mut cur));
        }
        cur.push_str(line);
        cur.push('\n');
    }
    if !cur.trim().is_empty() {
        out.push(cur);
    }
    out
}

pub fn project(layout: u8) -> Project {
    let mut files = BTreeMap::new();
    let blocks = split_tests();
    match layout {
        1 => {
            files.insert("src/dut.veryl".to_string(), DUT.to_string());
            files.insert("src/a_tests.veryl".to_string(), format!("{}{}{}{}", blocks[3], blocks[0], blocks[7], blocks[9]));
            files.insert("src/m_tests.veryl".to_string(), format!("{}{}{}{}", blocks[5], blocks[10], blocks[1], blocks[12]));
            files.insert("src/z_tests.veryl".to_string(), format!("{}{}{}{}{}", blocks[2], blocks[6], blocks[4], blocks[8], blocks[11]));
        }
        2 => {
            files.insert("src/zz_dut.veryl".to_string(), DUT.to_string());
            files.insert("src/tests.veryl".to_string(), TESTS.to_string());
        }
        _ => {
            files.insert("src/dut.veryl".to_string(), DUT.to_string());
            files.insert("src/tests.veryl".to_string(), TESTS.to_string());
        }
    }
    Project { name: "prj".into(), files, toml: TomlOpts::default() }
}

pub type Report = BTreeMap<String, String>;

fn parse_report(stdout: &str) -> Option<(Report, (i64, i64, i64))> {
    let start = stdout.find('{')?;
    let v: serde_json::Value = serde_json::from_str(stdout[start..].trim()).ok()?;
    let mut m = BTreeMap::new();
    for t in v.get("tests")?.as_array()? {
        let name = t.get("name")?.as_str()?.to_string();
        m.insert(
            name,
            format!(
                "status={} message={} output={}",
                t.get("status").and_then(|x| x.as_str()).unwrap_or(""),
                t.get("message").map(|x| x.to_string()).unwrap_or_default(),
                t.get("output").map(|x| x.to_string()).unwrap_or_default()
            ),
        );
    }
    let g = |k: &str| v.get(k).and_then(|x| x.as_i64()).unwrap_or(-1);
    Some((m, (g("passed"), g("failed"), g("ignored"))))
}

pub struct RunOut {
    pub report: Option<(Report, (i64, i64, i64))>,
    pub exit: Option<i32>,
    pub panicked: Option<String>,
    pub assignment: Vec<String>,
    pub workers_seen: usize,
    pub harness_error: Option<String>,
    pub timings_after: String,
    pub reuse_hits: usize,
    pub reuse_nonzero_delta: usize,
}

fn run_tests(w: &mut World, sc: &TestScenario, filter: Option<&str>, reuse: bool, scheduled: bool) -> RunOut {
    let mut args: Vec<String> = ["test", "--seed", &sc.test_seed.to_string(), "--format", "json", "--backend", &sc.backend].iter().map(|x| x.to_string()).collect();
    if let Some(f) = filter {
        args.push("--test".into());
        args.push(f.into());
    }
    let timings = w.prj.join(".build/test_timings");
    if scheduled && !sc.order.is_empty() {
        let n = sc.order.len();
        let text: Vec<String> = sc.order.iter().enumerate().map(|(i, t)| format!("{t} {:.6}", (n - i) as f64)).collect();
        simcore::fsutil::write_file(&timings, text.join("\n").as_bytes());
    } else {
        let _ = std::fs::remove_file(&timings);
    }
    let mut d = CmdDecider::plain(2);
    d.workers = Some(if scheduled { sc.workers } else { 1 });
    if scheduled {
        d.picks = sc.picks.clone();
        d.rng = Some(Rng::new(sc.pick_seed));
    }
    let mut env = w.env(1);
    if !reuse {
        env.push(("VERYL_DUT_REUSE".into(), "0".into()));
    } else if let Some(f) = sc.reuse_floor {
        env.push(("VERYL_DUT_REUSE_MIN_BYTES".into(), f.to_string()));
    }
    w.cmd_count += 1;
    let sockdir = w.scratch.path.join(format!("t{}", w.cmd_count));
    let spec = simcore::coord::ProcSpec { name: "p0".into(), exe: crate::world::veryl_exe(), args, cwd: w.prj.clone(), env };
    let r = simcore::coord::run(&sockdir, &[spec], w.now, &mut d, std::time::Duration::from_secs(600));
    let _ = std::fs::remove_dir_all(&sockdir);
    let p = r.procs.into_iter().next().unwrap_or_default();
    let panicked = (p.exit == Some(101) || p.exit.is_none() || p.stderr.contains("panicked at")).then(|| hist::tail(&p.stderr, 500));
    // which worker ran which dispatch slot
    let assignment: Vec<String> = r.trace.iter().filter(|t| t.kind == "test.queue").map(|t| t.actor.clone()).collect();
    let workers_seen = assignment.iter().collect::<BTreeSet<_>>().len();
    RunOut {
        report: parse_report(&p.stdout),
        exit: p.exit,
        panicked,
        assignment,
        workers_seen,
        harness_error: r.harness_error.or(r.deadlock.map(|d| format!("deadlock: {d}"))),
        timings_after: std::fs::read_to_string(&timings).unwrap_or_default(),
        reuse_hits: r.trace.iter().filter(|t| t.kind == "reuse.hit").count(),
        reuse_nonzero_delta: r.trace.iter().filter(|t| t.kind == "reuse.hit" && (t.len != 0 || t.hash != 0)).count(),
    }
}

pub struct Outcome {
    pub violation: Option<(String, String)>,
    pub workers_seen: usize,
    pub multi_test_worker: bool,
    pub assignment: Vec<String>,
    pub reuse_hits: usize,
    pub reuse_nonzero_delta: usize,
}

fn diff(a: &Report, b: &Report) -> Option<String> {
    for (k, v) in b {
        match a.get(k) {
            None => return Some(format!("test {k} missing from the report")),
            Some(x) if x != v => return Some(format!("test {k}: {x} but the reference gives {v}")),
            _ => {}
        }
    }
    for k in a.keys() {
        if !b.contains_key(k) {
            return Some(format!("unexpected test {k} in the report"));
        }
    }
    None
}

/// `mode`: "C32" compares with the single-worker, history-free run of the same
/// command; "C34" compares every test with its own from-scratch conversion.
pub fn run(sc: &TestScenario, mode: &str, refs: &mut BTreeMap<String, Report>) -> Result<Outcome, String> {
    let prj = project(sc.layout);
    let key = simcore::fsutil::hash_u64(format!("{sc:?}{mode}").as_bytes());
    let mut w = World::at(&prj, key);
    let out = run_tests(&mut w, sc, None, true, true);
    if let Some(e) = out.harness_error {
        return Err(e);
    }
    let mut o = Outcome { violation: None, workers_seen: out.workers_seen, multi_test_worker: false, assignment: out.assignment.clone(), reuse_hits: out.reuse_hits, reuse_nonzero_delta: out.reuse_nonzero_delta };
    let mut per: BTreeMap<&String, usize> = BTreeMap::new();
    for a in &out.assignment {
        *per.entry(a).or_default() += 1;
    }
    // a worker that was released more than twice ran at least two tests (the last release returns None)
    o.multi_test_worker = per.values().any(|n| *n >= 3);
    if let Some(p) = out.panicked {
        o.violation = Some(("panic".into(), p));
        return Ok(o);
    }
    let Some((report, totals)) = out.report else {
        o.violation = Some(("no-report".into(), format!("no JSON report, exit {:?}", out.exit)));
        return Ok(o);
    };
    if mode == "C32" {
        let rkey = format!("C32|{}|{}|{}", sc.layout, sc.test_seed, sc.backend);
        if !refs.contains_key(&rkey) {
            let r = run_tests(&mut w, sc, None, true, false);
            if let Some(e) = r.harness_error {
                return Err(e);
            }
            let Some((rep, t)) = r.report else { return Err("reference run produced no report".into()) };
            refs.insert(rkey.clone(), rep);
            refs.insert(format!("{rkey}|totals"), BTreeMap::from([("totals".to_string(), format!("{t:?}"))]));
        }
        if let Some(d) = diff(&report, &refs[&rkey]) {
            o.violation = Some(("verdict-or-output-depends-on-schedule".into(), format!("workers={} order={:?} assignment={:?}: {d}", sc.workers, sc.order, out.assignment)));
            return Ok(o);
        }
        if refs[&format!("{rkey}|totals")]["totals"] != format!("{totals:?}") {
            o.violation = Some(("totals".into(), format!("passed/failed/ignored {totals:?} but the reference gives {}", refs[&format!("{rkey}|totals")]["totals"])));
            return Ok(o);
        }
        // the recorded timings never change a verdict: run again on top of the timings this run saved
        let again = run_tests(&mut w, &TestScenario { order: vec![], ..sc.clone() }, None, true, false);
        let _ = again.timings_after;
        if let Some((rep2, _)) = again.report
            && let Some(d) = diff(&rep2, &refs[&rkey])
        {
            o.violation = Some(("rerun-differs".into(), d));
        }
    } else {
        for t in TEST_NAMES {
            let rkey = format!("C34|{}|{}|{}|{t}", sc.layout, sc.test_seed, sc.backend);
            if !refs.contains_key(&rkey) {
                let r = run_tests(&mut w, sc, Some(t), false, false);
                if let Some(e) = r.harness_error {
                    return Err(e);
                }
                let Some((rep, _)) = r.report else { return Err(format!("from-scratch run of {t} produced no report")) };
                refs.insert(rkey.clone(), rep);
            }
            let alone = &refs[&rkey];
            if let (Some(x), Some(y)) = (report.get(t), alone.get(t))
                && x != y
            {
                o.violation = Some(("reuse-visible".into(), format!("order={:?} workers={} assignment={:?}: test {t}: {x} but converting it from scratch gives {y}", sc.order, sc.workers, out.assignment)));
                return Ok(o);
            }
            if report.get(t).is_none() {
                o.violation = Some(("reuse-visible".into(), format!("test {t} missing from the report")));
                return Ok(o);
            }
        }
    }
    Ok(o)
}

pub fn gen_scenario(seed: u64, mode: &str, idx: usize) -> TestScenario {
    let mut rng = Rng::new(seed);
    let mut order: Vec<String> = TEST_NAMES.iter().map(|s| s.to_string()).collect();
    rng.shuffle(&mut order);
    // leave some tests without history (they sort first, by name)
    let keep = if rng.chance(1, 3) { 3 + rng.below(10) } else { order.len() };
    order.truncate(keep);
    let workers = if mode == "C34" && idx % 2 == 0 { 1 } else { 1 + rng.below(8) as u64 };
    TestScenario {
        layout: rng.below(3) as u8,
        test_seed: *rng.pick(&[7u64, 7, 12345, 1]),
        workers,
        order,
        picks: vec![],
        pick_seed: rng.next_u64() % 1_000_000,
        backend: if rng.chance(1, 5) { "cc".into() } else { "cranelift".into() },
        reuse_floor: if rng.chance(1, 2) { Some(0) } else { None },
    }
}

pub fn check(mode: &str, tier: &str) -> i32 {
    let seed = verif_seed();
    let n: usize = std::env::var("VERIF_N").ok().and_then(|x| x.parse().ok()).unwrap_or(if tier == "thorough" { if mode == "C34" { 500 } else { 1200 } } else { 48 });
    let start = std::time::Instant::now();
    println!("procsim {mode} tier={tier} VERIF_SEED={seed} schedules={n}");
    let jobs = simcore::pool::workers();
    // group scenarios by worker thread so that references are shared within a group
    let groups = jobs.min(n).max(1);
    let results = simcore::pool::par_map(groups, jobs, |g| {
        let mut refs = BTreeMap::new();
        let mut out = vec![];
        let mut i = g;
        while i < n {
            let sc = gen_scenario(mix(seed, mode, i as u64), mode, i);
            let r = run(&sc, mode, &mut refs);
            out.push((i, sc, r));
            i += groups;
        }
        out
    });
    let mut rep = Reporter::new(mode, seed);
    let mut probes = Counters::default();
    let mut distinct = BTreeSet::new();
    let mut samples = vec![];
    let mut seen = BTreeSet::new();
    for (i, sc, r) in results.into_iter().flatten() {
        match r {
            Err(e) => rep.harness_error(&e),
            Ok(o) => {
                probes.inc(&format!("workers.{}", sc.workers));
                probes.inc(&format!("backend.{}", sc.backend));
                probes.inc(&format!("layout.{}", sc.layout));
                if o.multi_test_worker {
                    probes.inc("schedule.a_worker_ran_two_or_more_tests");
                }
                if o.workers_seen >= 2 {
                    probes.inc("schedule.two_or_more_workers_ran_tests");
                }
                probes.add("reuse.dut_cache_hits", o.reuse_hits as u64);
                probes.add("reuse.hits_relocated_by_nonzero_delta", o.reuse_nonzero_delta as u64);
                let sched = simcore::fsutil::hash_u64(format!("{:?}{:?}{}{}", sc.order, o.assignment, sc.layout, sc.test_seed).as_bytes());
                if sc.workers > 1 || sc.order != TEST_NAMES.iter().map(|s| s.to_string()).collect::<Vec<_>>() {
                    distinct.insert(sched);
                }
                if i < 3 {
                    samples.push(json!({"scenario": sc, "assignment": o.assignment}));
                }
                if let Some((class, detail)) = o.violation {
                    let key = format!("{class}|backend={}", sc.backend);
                    let known = rep.is_known(&key).is_some();
                    if !seen.insert(key.clone()) && !known {
                        continue;
                    }
                    // make the schedule explicit: same picks replayed by index
                    let best = sc.clone();
                    rep.report(Found { key, class, detail, replay: json!({"scenario": best, "mode": mode}) });
                }
            }
        }
    }
    let need: &[&str] = if mode == "C32" { &["schedule.a_worker_ran_two_or_more_tests", "schedule.two_or_more_workers_ran_tests", "workers.1"] } else { &["schedule.a_worker_ran_two_or_more_tests", "workers.1", "reuse.dut_cache_hits", "reuse.hits_relocated_by_nonzero_delta"] };
    for p in need {
        if probes.get(p) == 0 {
            rep.harness_error(&format!("reach probe {p} stayed at zero"));
        }
    }
    let wall = start.elapsed().as_secs_f64();
    let mut extra = serde_json::Map::new();
    extra.insert("probes".into(), probes.to_json());
    extra.insert("runs_per_hour".into(), json!((n as f64 / wall * 3600.0) as u64));
    extra.insert("components".into(), json!({"real": ["veryl test CLI process: worker pool, longest-first dispatch from .build/test_timings, per-thread ProtoModuleCache, process-global DUT reuse caches, $tb::random/$display/$assert, JSON report"], "simulated": ["worker count (choice hook)", "dispatch order (timings file written by the scheduler)", "test-to-worker assignment (workers parked at the queue gate, one released at a time)", "RandomState keys"], "not_interleaved": ["two workers inside conversion at the same time (Condvar paths of the single-flight caches): workers are serialised at test granularity"]}));
    let (rule, assumptions) = if mode == "C32" {
        ("one fixed 13-test project (two of them stamped from one template and differing only in what their initial block reads) (3 file layouts; several tests share the `r` random handle name and the DUT at different parameters; one fails on purpose) x seeded schedules: worker count 1-8, dispatch order induced via test_timings (some tests without history), worker released per dispatch slot, backends cranelift and cc; per-test status/message/output and totals compared with the single-worker history-free run of the same seed, plus a re-run on the recorded timings. distinct_nontrivial = distinct (order, assignment, layout, seed) tuples that differ from the default schedule".to_string(),
         vec!["the range-bounds clause of $tb::random is a pure-input clause: only sampled by the project's own $assert".to_string()])
    } else {
        ("same project and schedules (half of them single-worker so that the first converter of a shared DUT varies exhaustively over the sampled orders); every test's status/message/output is compared with running that test alone with VERYL_DUT_REUSE=0 (converted from scratch). distinct_nontrivial as for C32".to_string(), vec![])
    };
    Evidence {
        property_id: mode.into(),
        tier: tier.into(),
        seed,
        level: "exploration".into(),
        evaluations: n as u64,
        distinct_nontrivial: distinct.len() as u64,
        rule,
        samples,
        extra,
        assumptions,
        wall_s: wall,
        violations: rep.violations,
    }
    .write();
    println!("{mode}: schedules={n} distinct={} violations={} known={} wall={wall:.1}s", distinct.len(), rep.violations, rep.known_hits);
    rep.exit
}

pub fn replay(mode: &str, path: &str) -> i32 {
    let text = std::fs::read_to_string(path).expect("read replay");
    let v: serde_json::Value = serde_json::from_str(&text).expect("parse replay");
    let sc: TestScenario = serde_json::from_value(v["scenario"].clone()).expect("scenario");
    let mut refs = BTreeMap::new();
    match run(&sc, mode, &mut refs) {
        Err(e) => {
            eprintln!("harness error during replay: {e}");
            2
        }
        Ok(o) => Reporter::replay_result(mode, path, o.violation),
    }
}
