//! C30 — concurrent veryl processes never corrupt each other.
//!
//! Two or three real `veryl-sim` processes run over shared directories; the
//! coordinator serialises them at every gate and a seeded (or explicit)
//! schedule decides who proceeds. Oracles over the recorded history: no torn
//! read (every observed read equals a version some writer completed), every
//! finished command equals its clean reference, no panic, no deadlock.

use crate::hist;
use crate::report::{Found, Reporter};
use crate::world::{self, World};
use serde::{Deserialize, Serialize};
use serde_json::json;
use simcore::coord::{self, Cand, Decider, Event, ProcSpec, TraceEntry, Verdict};
use simcore::evidence::{Counters, Evidence};
use simcore::rng::{mix, verif_seed, Rng};
use std::collections::{BTreeMap, BTreeSet};
use std::time::Duration;
use wgen::{Project, Step};

#[derive(Clone, Debug, Serialize, Deserialize)]
pub struct C30Scenario {
    /// "same-project" | "shared-user-cache"
    pub kind: String,
    pub projects: Vec<Project>,
    /// Sequential preparation on project 0 (builds and edits) before the concurrent phase.
    pub prep: Vec<Step>,
    /// Concurrent commands: (project index, args).
    pub cmds: Vec<(usize, Vec<String>)>,
    /// Explicit schedule prefix: index into the sorted candidate list at each
    /// decision with more than one candidate; afterwards the seeded policy.
    pub schedule: Vec<usize>,
    pub sched_seed: u64,
    /// Language-server actors on project 0: each opens these files (one server lifetime).
    #[serde(default)]
    pub ls_actors: Vec<Vec<String>>,
}

fn s(v: &[&str]) -> Vec<String> {
    v.iter().map(|x| x.to_string()).collect()
}

pub struct Sched {
    explicit: Vec<usize>,
    pos: usize,
    rng: Rng,
    last: String,
    last_kind: String,
    run_to_completion: bool,
    pub decisions: Vec<usize>,
    pub switches: u64,
    tick: u64,
    /// A stalled actor (slow node): parked at a hot gate and not picked again for this many
    /// decisions, so that the others run a long stretch inside its window.
    stalled: Option<(String, u32)>,
    pub stalls: u64,
}

impl Sched {
    pub fn new(explicit: &[usize], seed: u64) -> Sched {
        Sched {
            explicit: explicit.to_vec(),
            pos: 0,
            rng: Rng::new(seed),
            last: String::new(),
            last_kind: String::new(),
            run_to_completion: seed % 8 == 0,
            decisions: vec![],
            switches: 0,
            tick: 1 + seed % 20,
            // a late starter: one process is held at its first gates while the others run ahead
            stalled: if seed % 8 != 0 && seed % 3 == 0 { Some((format!("p{}", (seed / 24) % 2), 8 + ((seed / 48) % 120) as u32)) } else { None },
            stalls: 0,
        }
    }
}

impl Decider for Sched {
    fn pick(&mut self, cands: &[Cand]) -> usize {
        if cands.len() == 1 {
            self.last = cands[0].actor.to_string();
            return 0;
        }
        let i = if self.pos < self.explicit.len() {
            let i = self.explicit[self.pos] % cands.len();
            self.pos += 1;
            i
        } else {
            let cur = cands.iter().position(|c| c.actor == self.last);
            // inside a multi-step publish (clone, fetch, checkout; mkdir, expand): the window other
            // actors must not look into. The actor that just entered one is often stalled there,
            // which also releases a late starter.
            let window = matches!(self.last_kind.as_str(), "dep.cloned" | "dep.fetched" | "resolve.cloned" | "std.mkdir");
            if let Some(c) = cur
                && window
                && !self.run_to_completion
                && self.stalled.as_ref().map(|s| s.0 != cands[c].actor).unwrap_or(true)
                && self.rng.chance(2, 3)
            {
                self.stalled = Some((cands[c].actor.to_string(), 20 + self.rng.below(200) as u32));
                self.stalls += 1;
            }
            // a stalled actor (slow node) is skipped while others can run
            let mut forced = None;
            if let Some((name, left)) = self.stalled.clone() {
                if left == 0 {
                    self.stalled = None;
                } else {
                    self.stalled = Some((name.clone(), left - 1));
                    let others: Vec<usize> = (0..cands.len()).filter(|i| cands[*i].actor != name).collect();
                    if !others.is_empty() && others.len() < cands.len() {
                        forced = Some(match cur {
                            Some(c) if others.contains(&c) => c,
                            _ => others[self.rng.below(others.len())],
                        });
                    }
                }
            }
            match (forced, cur) {
                (Some(j), _) => j,
                (None, Some(c)) if self.run_to_completion => c,
                (None, Some(c)) => {
                    // Switch right after an existence check, a truncation, a lock release or
                    // between the files of a multi-file write; otherwise mostly keep going.
                    let hot = matches!(self.last_kind.as_str(), "start" | "std.exists" | "std.mkdir" | "meta.mkdir" | "unlock" | "lock.got" | "blob.exists" | "dep.enter" | "dep.cloned" | "dep.fetched" | "resolve.cloned")
                        || self.last_kind.ends_with(".open")
                        || self.last_kind.ends_with(".data");
                    let p_switch = if hot { 3 } else { 1 };
                    if self.rng.chance(p_switch, 5) {
                        let mut j = self.rng.below(cands.len() - 1);
                        if j >= c {
                            j += 1;
                        }
                        if hot && self.stalled.is_none() && self.rng.chance(1, 3) {
                            self.stalled = Some((cands[c].actor.to_string(), 20 + self.rng.below(200) as u32));
                            self.stalls += 1;
                        }
                        j
                    } else {
                        c
                    }
                }
                (None, None) => self.rng.below(cands.len()),
            }
        };
        if cands[i].actor != self.last {
            self.switches += 1;
        }
        self.decisions.push(i);
        self.last = cands[i].actor.to_string();
        i
    }
    fn verdict(&mut self, actor: &str, ev: &Event, _seq: usize, _actor_seq: usize) -> Verdict {
        // dev aid: C30_STALL_AT=<gate kind> stalls whoever passes that gate first
        if let Ok(k) = std::env::var("C30_STALL_AT")
            && ev.kind == k
            && self.stalled.is_none()
            && self.stalls == 0
        {
            self.stalled = Some((actor.to_string(), 100_000));
            self.stalls += 1;
        }
        self.last_kind = ev.kind.clone();
        Verdict::Go
    }
    fn tick(&mut self) -> u64 {
        self.tick
    }
}

/// Torn reads: an observed read whose bytes are not a version some writer completed.
pub fn torn_reads(trace: &[TraceEntry], initial: &BTreeMap<String, u64>) -> Vec<String> {
    let mut out = vec![];
    for e in trace {
        let is_read = matches!(e.kind.as_str(), "manifest.read" | "blob.data" | "src.read" | "info.read");
        if !is_read {
            continue;
        }
        // File state when the read happened: everything released before the event arrived.
        let mut versions: BTreeMap<&str, BTreeSet<u64>> = BTreeMap::new();
        let mut inflight: BTreeMap<&str, &str> = BTreeMap::new();
        let mut staged: BTreeMap<(&str, &str), u64> = BTreeMap::new();
        for w in trace.iter().filter(|w| w.seq < e.arrived) {
            if w.verdict != Verdict::Go {
                continue;
            }
            if w.kind == "aw.data" {
                staged.insert((w.actor.as_str(), w.path.as_str()), w.hash);
            } else if w.kind == "aw.rename" {
                if let Some(h) = staged.get(&(w.actor.as_str(), w.path.as_str())) {
                    versions.entry(w.path.as_str()).or_default().insert(*h);
                }
            } else if w.kind.ends_with(".open") && w.kind != "out.open" {
                inflight.insert(w.path.as_str(), w.actor.as_str());
            } else if w.kind.ends_with(".data") && w.kind != "blob.data" {
                versions.entry(w.path.as_str()).or_default().insert(w.hash);
                inflight.remove(w.path.as_str());
            }
        }
        let known = versions.get(e.path.as_str());
        let by_other = inflight.get(e.path.as_str()).is_some_and(|a| *a != e.actor);
        let ok = known.is_some_and(|v| v.contains(&e.hash)) || initial.get(&e.path) == Some(&e.hash);
        if by_other && !ok {
            out.push(format!(
                "{} read {} ({} bytes) while {} was writing it in place: the bytes are no completed version",
                e.actor,
                e.path,
                e.len,
                inflight[e.path.as_str()]
            ));
        } else if known.is_some() && !ok {
            out.push(format!("{} read {} ({} bytes, hash {:x}) which matches no version any writer completed", e.actor, e.path, e.len, e.hash));
        }
    }
    out
}

pub struct Outcome {
    pub violation: Option<(String, String)>,
    pub decisions: Vec<usize>,
    pub switches: u64,
    pub stalls: u64,
    pub blocked: usize,
    pub gates: usize,
    pub interleaving: u64,
    pub info_torn: usize,
    pub ls_gates: usize,
    pub ls_lock_try: usize,
}

pub fn path_of(w: &World, p: &Project) -> std::path::PathBuf {
    w.scratch.path.join("h").join(&p.name)
}

pub fn run(sc: &C30Scenario, cmds_run: &mut u64) -> Result<Outcome, String> {
    let key = simcore::fsutil::hash_u64(format!("{:?}{:?}{:?}{:?}", sc.kind, sc.projects, sc.prep, sc.cmds).as_bytes()) ^ 0x30;
    struct RepoGuard(Option<std::path::PathBuf>);
    impl Drop for RepoGuard {
        fn drop(&mut self) {
            if let Some(p) = &self.0 {
                let _ = std::fs::remove_dir_all(p);
            }
        }
    }
    let mut _repo = RepoGuard(None);
    if sc.kind == "shared-git-dependency" {
        let dir = dep_repo_dir(sc);
        let d2 = dir.clone();
        std::thread::spawn(move || create_dep_repo(&d2)).join().map_err(|_| "repo thread panicked".to_string())??;
        _repo = RepoGuard(Some(dir));
    }
    let mut w = World::at(&sc.projects[0], key);
    for p in sc.projects.iter().skip(1) {
        w.add_project(p);
    }
    // sequential preparation on project 0
    for (i, step) in sc.prep.iter().enumerate() {
        match step {
            Step::Cmd { args } => {
                let hashseed = hist::hashseed_for(&w.project, args);
                let mut d = world::CmdDecider::plain(2);
                let out = w.run(args, hashseed, &mut d);
                *cmds_run += 1;
                if let Some(e) = out.harness_error {
                    return Err(e);
                }
            }
            other => w.apply_edit(other, 2000 + i as u64 * 13),
        }
    }
    let mut projects = sc.projects.clone();
    projects[0] = w.project.clone();
    // initial content hashes of everything readable (for "initial version" of reads)
    let mut initial = BTreeMap::new();
    for f in simcore::fsutil::walk(&w.scratch.path.join("h")) {
        if let Ok(d) = std::fs::read(&f) {
            initial.insert(f.to_string_lossy().to_string(), simcore::fsutil::fnv(&d));
        }
    }
    // the concurrent phase
    let specs: Vec<ProcSpec> = sc
        .cmds
        .iter()
        .enumerate()
        .map(|(i, (pi, args))| ProcSpec {
            name: format!("p{i}"),
            exe: world::veryl_exe(),
            args: args.clone(),
            cwd: path_of(&w, &projects[*pi]),
            env: world::env_for(&w.home, hist::hashseed_for(&projects[*pi], args)),
        })
        .collect();
    let mut specs = specs;
    let ls_exe = simcore::evidence::verif_root().join("target/debug/lssim");
    for (k, files) in sc.ls_actors.iter().enumerate() {
        let mut args = vec!["--actor".to_string(), path_of(&w, &projects[0]).to_string_lossy().to_string(), w.scratch.path.join(format!("ls{k}.json")).to_string_lossy().to_string()];
        args.extend(files.iter().cloned());
        specs.push(ProcSpec { name: format!("ls{k}"), exe: ls_exe.clone(), args, cwd: path_of(&w, &projects[0]), env: world::env_for(&w.home, 3 + k as u64) });
    }
    let mut sched = Sched::new(&sc.schedule, sc.sched_seed);
    let sockdir = w.scratch.path.join("cc");
    let r = coord::run(&sockdir, &specs, w.now, &mut sched, Duration::from_secs(300));
    *cmds_run += specs.len() as u64;
    let _ = std::fs::remove_dir_all(&sockdir);
    if let Some(e) = r.harness_error {
        return Err(e);
    }
    if let Ok(f) = std::env::var("C30_TRACE_FILE") {
        let text: String = r.trace.iter().map(|t| format!("{} {} {} {:?} arrived={}\n", t.actor, t.kind, t.path.rsplit('/').take(3).collect::<Vec<_>>().join("<"), t.verdict, t.arrived)).collect();
        let _ = std::fs::write(f, text);
    }
    if std::env::var("C30_DUMP").is_ok() {
        for t in &r.trace {
            eprintln!("{} {} {} {:?}", t.actor, t.kind, t.path.rsplit('/').take(3).collect::<Vec<_>>().join("<"), t.verdict);
        }
        for p in &r.procs {
            eprintln!("== {} exit {:?}\n{}", p.name, p.exit, hist::tail(&p.stderr, 800));
        }
    }
    let mut outcome = Outcome {
        violation: None,
        decisions: sched.decisions.clone(),
        switches: sched.switches,
        stalls: sched.stalls,
        blocked: r.blocked.len(),
        gates: r.trace.len(),
        interleaving: simcore::fsutil::hash_u64(r.trace.iter().map(|t| format!("{}:{};", t.actor, t.kind)).collect::<String>().as_bytes()),
        info_torn: 0,
        ls_gates: r.trace.iter().filter(|t| t.actor.starts_with("ls")).count(),
        ls_lock_try: r.trace.iter().filter(|t| t.actor.starts_with("ls") && t.kind == "lock.try").count(),
    };
    if let Some(d) = r.deadlock {
        outcome.violation = Some(("deadlock".into(), format!("no process can proceed: {d}")));
        return Ok(outcome);
    }
    for (i, p) in r.procs.iter().enumerate() {
        if p.exit == Some(101) || p.exit.is_none() || p.stderr.contains("panicked at") {
            outcome.violation = Some(("panic".into(), format!("process {} {:?} panicked or died: exit {:?}: {}", p.name, sc.cmds.get(i).map(|c| c.1.clone()), p.exit, hist::tail(&p.stderr, 500))));
            return Ok(outcome);
        }
    }
    // The language server never waits on a build's lock (it may only fail to acquire).
    if let Some((a, path)) = r.blocked.iter().find(|(a, _)| a.starts_with("ls")) {
        outcome.violation = Some(("ls-waits-on-lock".into(), format!("language-server actor {a} blocked waiting for {path}")));
        return Ok(outcome);
    }
    // Each language server's final diagnostics equal those of a server running alone
    // on a pristine copy of the same sources.
    if !sc.ls_actors.is_empty() {
        let prj = &projects[0];
        let rbase = w.scratch.path.join("rls");
        for (k, files) in sc.ls_actors.iter().enumerate() {
            let _ = std::fs::remove_dir_all(&rbase);
            let rprj = rbase.join(&prj.name);
            simcore::fsutil::write_file(&rprj.join("Veryl.toml"), prj.toml.render(&prj.name).as_bytes());
            for (f, c) in &prj.files {
                simcore::fsutil::write_file(&rprj.join(f), c.as_bytes());
            }
            let rout = rbase.join("out.json");
            let mut cmd = std::process::Command::new(&ls_exe);
            cmd.arg("--actor").arg(&rprj).arg(&rout).args(files).current_dir(&rprj).env_remove("VERYL_SIM_SOCK");
            for (kk, vv) in world::env_for(&rbase.join("home"), 3 + k as u64) {
                cmd.env(kk, vv);
            }
            let _ = cmd.output();
            *cmds_run += 1;
            let norm = |p: &std::path::Path| -> Option<serde_json::Value> {
                let v: serde_json::Value = serde_json::from_str(&std::fs::read_to_string(p).ok()?).ok()?;
                Some(v["diagnostics"].clone())
            };
            let got = norm(&w.scratch.path.join(format!("ls{k}.json")));
            let want = norm(&rout);
            if got != want {
                outcome.violation = Some(("ls-diagnostics".into(), format!("language server ls{k} next to {:?}: diagnostics {} but a server running alone gives {}", sc.cmds, got.map(|x| x.to_string()).unwrap_or("none".into()).chars().take(400).collect::<String>(), want.map(|x| x.to_string()).unwrap_or("none".into()).chars().take(400).collect::<String>())));
                return Ok(outcome);
            }
        }
        let _ = std::fs::remove_dir_all(&rbase);
    }
    let torn = torn_reads(&r.trace, &initial);
    // info.toml is read before the .build lock is taken and written in place; it is not
    // among the files the property lists, so a torn info.toml read is counted, not reported.
    let (info, listed): (Vec<String>, Vec<String>) = torn.into_iter().partition(|t| t.contains("info.toml"));
    outcome.info_torn = info.len();
    if let Some(t) = listed.first() {
        outcome.violation = Some(("torn-read".into(), t.clone()));
        return Ok(outcome);
    }
    // each finished command equals its clean reference; final trees equal clean builds
    for (i, (pi, args)) in sc.cmds.iter().enumerate() {
        let prj = &projects[*pi];
        let dir = path_of(&w, prj);
        let hashseed = hist::hashseed_for(prj, args);
        let (robs, rout) = world::reference(&w.scratch.path, 900 + i, prj, args, hashseed, w.now, None);
        *cmds_run += 1;
        if rout.harness_error.is_some() || rout.panicked() {
            continue;
        }
        let fake = world::CmdOut { exit: r.procs[i].exit, stdout: r.procs[i].stdout.clone(), stderr: r.procs[i].stderr.clone(), ..Default::default() };
        let hobs = world::observe(&fake, &dir, &prj.files);
        let emits = hist::is_emitting(args) && args.first().map(|x| x.as_str()) == Some("build");
        // `veryl test` rewrites the filelist in its own (absolute) format: when a test
        // runs alongside, whose filelist is on disk at the end depends on who finished last.
        let (mut hobs, mut robs) = (hobs, robs);
        if sc.cmds.iter().any(|(_, a)| a.first().map(|x| x.as_str()) == Some("test")) {
            hobs.outputs.retain(|k, _| !(k.ends_with(".f") || k.ends_with(".list.rb")));
            robs.outputs.retain(|k, _| !(k.ends_with(".f") || k.ends_with(".list.rb")));
        }
        if sc.kind == "shared-git-dependency" && robs.exit != Some(0) {
            return Err(format!("reference build of a git-dependency scenario failed: {}", hist::tail(&rout.stderr, 300)));
        }
        if let Some((class, detail)) = world::compare(&hobs, &robs, emits) {
            // A divergence explained by the listed C04 finding (it needs no concurrency).
            let whole = hist::Scenario {
                project: sc.projects[*pi].clone(),
                steps: sc.prep.iter().cloned().chain(std::iter::once(Step::Cmd { args: args.clone() })).collect(),
                seed: 0,
            };
            let v = hist::Violation { class: class.clone(), step: whole.steps.len() - 1, detail: format!("{args:?}: {detail}") };
            if *pi == 0 && crate::c04::known_tag(&whole, &v).is_some() {
                continue;
            }
            outcome.violation = Some((format!("result:{class}"), format!("p{i} {:?} in {}: {detail}", args, prj.name)));
            return Ok(outcome);
        }
    }
    Ok(outcome)
}

const CMDS: &[&[&str]] = &[&["build"], &["build"], &["check"], &["test", "--seed", "7", "--format", "json", "--backend", "cranelift"]];

/// Creates the dependency repository of a "shared-git-dependency" scenario with veryl's
/// own Git/publish API: release 0.1.0 is published, then HEAD moves on (unpublished), so a
/// checkout left at HEAD differs visibly from the pinned release. Outside any git work tree.
pub fn create_dep_repo(dir: &std::path::Path) -> Result<(), String> {
    use veryl_metadata::{Git, Metadata};
    let _ = std::fs::remove_dir_all(dir);
    std::fs::create_dir_all(dir.join("src")).map_err(|e| e.to_string())?;
    if std::process::Command::new("git").arg("-C").arg(dir).arg("rev-parse").arg("--show-toplevel").output().map(|o| o.status.success()).unwrap_or(false) {
        return Err(format!("{} lies inside a git work tree", dir.display()));
    }
    let toml = dir.join("Veryl.toml");
    simcore::fsutil::write_file(&toml, b"[project]\nname = \"gdep\"\nversion = \"0.1.0\"\n\n[build]\nclock_type = \"posedge\"\nreset_type = \"async_low\"\nsources = [\"src\"]\ntarget = {type = \"directory\", path = \"target\"}\nexclude_std = true\n\n[publish]\nbump_commit = true\npublish_commit = true\n");
    let ign = dir.join(".gitignore");
    simcore::fsutil::write_file(&ign, b"Veryl.lock\n");
    let m = dir.join("src/gdep_mod.veryl");
    simcore::fsutil::write_file(&m, b"pub module GdepMod (\n    o: output logic<4>,\n) {\n    assign o = 1;\n}\n");
    let git = Git::init(dir).map_err(|e| e.to_string())?;
    for f in [&toml, &ign, &m] {
        git.add(f).map_err(|e| e.to_string())?;
    }
    git.commit("release").map_err(|e| e.to_string())?;
    let mut md = Metadata::load(&toml).map_err(|e| e.to_string())?;
    md.publish().map_err(|e| e.to_string())?;
    // HEAD moves past the release
    simcore::fsutil::write_file(&m, b"pub module GdepMod (\n    o: output logic<4>,\n) {\n    assign o = 2;\n}\n");
    let x = dir.join("src/gdep_extra.veryl");
    simcore::fsutil::write_file(&x, b"pub module GdepExtra (\n    o: output logic,\n) {\n    assign o = 0;\n}\n");
    git.add(&m).map_err(|e| e.to_string())?;
    git.add(&x).map_err(|e| e.to_string())?;
    git.commit("work after the release").map_err(|e| e.to_string())?;
    Ok(())
}

pub fn dep_repo_dir(sc: &C30Scenario) -> std::path::PathBuf {
    // independent of the declared dependencies themselves (the URL is derived from this path)
    let key = simcore::fsutil::hash_u64(format!("{:?}{:?}{}", sc.kind, sc.projects.iter().map(|p| &p.files).collect::<Vec<_>>(), sc.sched_seed).as_bytes());
    std::path::PathBuf::from(std::env::var("VERIF_DEPSIM_SCRATCH").unwrap_or_else(|_| "/tmp/verif-depsim-scratch".to_string())).join(format!("c30-{key:016x}"))
}

pub fn gen_scenario(seed: u64) -> C30Scenario {
    let mut rng = Rng::new(seed);
    if rng.chance(1, 6) {
        // two projects, cold shared user cache, one git dependency pinned to a release behind HEAD
        let mut ps = vec![];
        for name in ["prj", "prk"] {
            let mut g = wgen::gen_project(&mut rng, true, false);
            g.project.files.retain(|k, _| !k.starts_with("../"));
            g.project.toml.deps.clear();
            g.project.files.retain(|k, _| k != "src/use_dep.veryl");
            g.project.name = name.to_string();
            g.project.toml.target = "directory".into();
            if g.project.files.is_empty() {
                g.project.files.insert("src/only.veryl".into(), "module Only (\n    o: output logic,\n) {\n    assign o = 0;\n}\n".into());
            }
            ps.push(g.project);
        }
        let mut sc = C30Scenario { kind: "shared-git-dependency".into(), projects: ps, prep: vec![], cmds: vec![(0, s(&["build"])), (1, s(&["build"]))], schedule: vec![], sched_seed: rng.next_u64() % 1_000_000, ls_actors: vec![] };
        if rng.chance(1, 3) {
            sc.cmds.push((0, s(&["check"])));
        }
        let url = format!("file://{}", dep_repo_dir(&sc).to_string_lossy());
        for p in sc.projects.iter_mut() {
            p.toml.git_deps = vec![("gdep".to_string(), url.clone(), "0.1.0".to_string())];
        }
        return sc;
    }
    if rng.chance(1, 4) {
        // one or two builds/checks alongside one or two language servers on the same project
        let g = wgen::gen_project(&mut rng, true, false);
        let mut prep = vec![];
        if rng.chance(1, 2) {
            prep.push(Step::Cmd { args: s(&["build"]) });
        }
        let names: Vec<String> = g.project.files.keys().cloned().collect();
        let nls = 1 + rng.below(2);
        let ls_actors = (0..nls).map(|_| { let k = 1 + rng.below(2.min(names.len())); let mut v = names.clone(); rng.shuffle(&mut v); v.truncate(k); v }).collect();
        let n = 1 + rng.below(2);
        let cmds = (0..n).map(|_| (0usize, s(CMDS[rng.below(3)]))).collect();
        let mut project = g.project;
        project.toml.incremental = true;
        return C30Scenario { kind: "build-with-language-server".into(), projects: vec![project], prep, cmds, schedule: vec![], sched_seed: rng.next_u64() % 1_000_000, ls_actors };
    }
    let shared = rng.chance(2, 5);
    if shared {
        // Two projects, cold shared user cache, standard library enabled.
        let mut ps = vec![];
        for name in ["prj", "prk"] {
            let mut g = wgen::gen_project(&mut rng, true, false);
            g.project.name = name.to_string();
            g.project.toml.exclude_std = false;
            g.project.toml.target = "directory".into();
            ps.push(g.project);
        }
        let n = 2 + rng.below(2);
        let cmds = (0..n).map(|i| (i % 2, s(&["build"]))).collect();
        C30Scenario { kind: "shared-user-cache".into(), projects: ps, prep: vec![], cmds, schedule: vec![], sched_seed: rng.next_u64() % 1_000_000, ls_actors: vec![] }
    } else {
        let with_tests = rng.chance(1, 4);
        let g = wgen::gen_project(&mut rng, true, with_tests);
        let mut prep = vec![];
        if rng.chance(3, 4) {
            prep.push(Step::Cmd { args: s(&["build"]) });
            let slots: Vec<&wgen::Slot> = g.units.iter().flat_map(|u| u.slots.iter()).collect();
            for _ in 0..rng.below(3) {
                let slot = *rng.pick(&slots);
                let v = rng.below(slot.variants.len());
                prep.push(Step::Write { path: slot.path.to_string(), content: slot.variants[v].to_string() });
            }
        }
        let n = 2 + rng.below(2);
        let ncmd = if with_tests { CMDS.len() } else { 3 };
        let cmds = (0..n).map(|_| (0usize, s(CMDS[rng.below(ncmd)]))).collect();
        C30Scenario { kind: "same-project".into(), projects: vec![g.project], prep, cmds, schedule: vec![], sched_seed: rng.next_u64() % 1_000_000, ls_actors: vec![] }
    }
}

fn key_of(sc: &C30Scenario, class: &str, detail: &str) -> String {
    let what = if detail.contains("/std/") {
        "std"
    } else if detail.contains("manifest.toml") {
        "manifest"
    } else if detail.contains(".frag") {
        "blob"
    } else if detail.contains("dependencies/") {
        "dependencies"
    } else {
        "other"
    };
    format!("{class}|{}|{what}", sc.kind)
}

pub fn check(tier: &str) -> i32 {
    let seed = verif_seed();
    let n: usize = std::env::var("VERIF_N").ok().and_then(|x| x.parse().ok()).unwrap_or(if tier == "thorough" { 1200 } else { 120 });
    let start = std::time::Instant::now();
    println!("procsim C30 tier={tier} VERIF_SEED={seed} schedules={n}");
    let jobs = simcore::pool::workers();
    let results = simcore::pool::par_map(n, jobs, |i| {
        let mut sc = gen_scenario(mix(seed, "C30", i as u64));
        // dev aid: C30_KIND=<scenario kind> runs only scenarios of that kind
        if let Ok(k) = std::env::var("C30_KIND") {
            let mut j = 0u64;
            while sc.kind != k {
                j += 1;
                sc = gen_scenario(mix(seed, "C30", i as u64 * 1000 + j));
            }
        }
        let mut cmds = 0;
        let r = run(&sc, &mut cmds);
        (sc, r, cmds)
    });
    let mut rep = Reporter::new("C30", seed);
    let mut probes = Counters::default();
    let mut interleavings = BTreeSet::new();
    let mut distinct = BTreeSet::new();
    let mut samples = vec![];
    let mut seen = BTreeSet::new();
    let mut cmds_total = 0;
    for (i, (sc, r, cmds)) in results.into_iter().enumerate() {
        cmds_total += cmds;
        match r {
            Err(e) => rep.harness_error(&e),
            Ok(o) => {
                probes.inc(&format!("scenario.{}", sc.kind));
                probes.add("gates", o.gates as u64);
                probes.add("schedule.switches", o.switches);
                probes.add("fault.stalled_actor_at_hot_gate", o.stalls);
                probes.add("lock.blocked_reports", o.blocked as u64);
                probes.add("observation.torn_info_toml_reads", o.info_torn as u64);
                probes.add("gates.by_language_server_actors", o.ls_gates as u64);
                probes.add("gates.language_server_try_lock", o.ls_lock_try as u64);
                if o.blocked > 0 {
                    probes.inc("scenario.with_lock_contention");
                }
                interleavings.insert(o.interleaving);
                if o.switches >= 2 {
                    distinct.insert(o.interleaving);
                }
                if i < 3 {
                    samples.push(json!({"kind": sc.kind, "projects": sc.projects.iter().map(|p| p.files.keys().collect::<Vec<_>>()).collect::<Vec<_>>(), "cmds": sc.cmds, "schedule_decisions": o.decisions.iter().take(60).collect::<Vec<_>>(), "gates": o.gates}));
                }
                if let Some((class, detail)) = o.violation {
                    let key = key_of(&sc, &class, &detail);
                    let known = rep.is_known(&key).is_some();
                    if !seen.insert(key.clone()) && !known {
                        continue;
                    }
                    if known {
                        rep.report(Found { key, class, detail, replay: json!({}) });
                        continue;
                    }
                    // explicit schedule = the decisions taken; minimise it
                    let mut best = sc.clone();
                    best.schedule = o.decisions.clone();
                    let same = |c: &C30Scenario| {
                        let mut n = 0;
                        run(c, &mut n).ok().and_then(|o| o.violation).is_some_and(|v| v.0 == class)
                    };
                    if same(&best) {
                        // drop commands, then shorten the schedule (the tail falls back to "keep running the same actor")
                        let mut budget = 30;
                        while best.cmds.len() > 2 && budget > 0 {
                            let mut cand = best.clone();
                            cand.cmds.pop();
                            budget -= 1;
                            if same(&cand) {
                                best = cand;
                            } else {
                                break;
                            }
                        }
                        let mut len = best.schedule.len();
                        while len > 0 && budget > 0 {
                            let mut cand = best.clone();
                            cand.schedule.truncate(len / 2);
                            cand.sched_seed = 0; // run-to-completion tail
                            budget -= 1;
                            if same(&cand) {
                                best = cand;
                                len /= 2;
                            } else {
                                break;
                            }
                        }
                    }
                    rep.report(Found { key, class, detail, replay: json!({"scenario": best}) });
                }
            }
        }
    }
    for p in ["scenario.same-project", "scenario.shared-user-cache", "scenario.shared-git-dependency", "scenario.build-with-language-server", "scenario.with_lock_contention", "schedule.switches", "gates.language_server_try_lock"] {
        if probes.get(p) == 0 {
            rep.harness_error(&format!("reach probe {p} stayed at zero"));
        }
    }
    let wall = start.elapsed().as_secs_f64();
    let mut extra = serde_json::Map::new();
    extra.insert("probes".into(), probes.to_json());
    extra.insert("commands_executed".into(), json!(cmds_total));
    extra.insert("distinct_interleavings".into(), json!(interleavings.len()));
    extra.insert("interleaving_measure".into(), json!("hash of the (actor, gate kind) release sequence of the concurrent phase"));
    extra.insert("runs_per_hour".into(), json!((n as f64 / wall * 3600.0) as u64));
    extra.insert("components".into(), json!({"real": ["2-3 concurrent veryl CLI processes (build/check/test)", "kernel flock (via try_lock + report + retry at the lock gates)", "filesystem", "std expansion into the shared user cache"], "simulated": ["process scheduling: one runnable actor at a time, chosen by the schedule", "clock", "RandomState keys"], "stub_boundary": ["inside one gitoxide clone/fetch/checkout call nothing is gated: the gates sit between those calls", "the language-server actor runs one lifetime (open files, quiesce, probe); longer editor scripts are lssim's (C07)"]}));
    Evidence {
        property_id: "C30".into(),
        tier: tier.into(),
        seed,
        level: "exploration".into(),
        evaluations: n as u64,
        distinct_nontrivial: distinct.len() as u64,
        rule: "seeded scenarios: (a) 2-3 of build/check/test on the same project after an optional build+edits, (b) 2-3 builds of two projects sharing a cold user cache with the standard library enabled, (c) two projects sharing a cold user cache and a git dependency (local file:// repository created with veryl's own Git/publish API, pinned to a release behind HEAD; gates between clone, fetch and checkout), (d) 1-2 build/check processes next to 1-2 language-server processes (real Server on the shim queue, gates owned by the same coordinator) on one project; a seeded scheduler (biased to switch after existence checks, truncations, lock hand-overs and between files of a multi-file write; 1 in 8 run-to-completion; schedule faults: a late starter held at its first gates for 8-128 decisions, and an actor stalled for 20-220 decisions right after it entered a multi-step publish such as clone/fetch/checkout or mkdir/expand, or with probability 1/3 at another hot gate) picks the next process at every gate. distinct_nontrivial = distinct interleavings (hash of the actor/gate sequence) with at least two context switches".into(),
        samples,
        extra,
        assumptions: vec![
            "processes are serialised at gates: two processes never execute between-gate code at the same time, so races inside one un-gated stretch (e.g. inside gitoxide) are not explored".into(),
            "a torn read of .build/info.toml (read before the lock, written in place) is counted as an observation: that file is not among those the property lists, and its consequences are covered by the result comparison".into(),
        ],
        wall_s: wall,
        violations: rep.violations,
    }
    .write();
    println!("C30: schedules={n} interleavings={} nontrivial={} violations={} known={} wall={wall:.1}s", interleavings.len(), distinct.len(), rep.violations, rep.known_hits);
    rep.exit
}

pub fn replay(path: &str) -> i32 {
    let text = std::fs::read_to_string(path).expect("read replay");
    let v: serde_json::Value = serde_json::from_str(&text).expect("parse replay");
    let sc: C30Scenario = serde_json::from_value(v["scenario"].clone()).expect("scenario");
    let mut n = 0;
    match run(&sc, &mut n) {
        Err(e) => {
            eprintln!("harness error during replay: {e}");
            2
        }
        Ok(o) => Reporter::replay_result("C30", path, o.violation),
    }
}
