//! C24 — build results do not depend on file order or the run.
//!
//! The three sources of run-to-run variation are behind seams and drawn from
//! the seed: the order in which `Metadata::paths` hands files to the analyzer
//! (permutation hook), the `RandomState` keys of the process (getrandom
//! override), and — by repeating the identical run — anything else.

use crate::hist::{self};
use crate::report::{Found, Reporter};
use crate::world::{self, CmdDecider, World};
use serde::{Deserialize, Serialize};
use serde_json::json;
use simcore::evidence::{Counters, Evidence};
use simcore::rng::{mix, verif_seed, Rng};
use std::collections::{BTreeMap, BTreeSet};
use wgen::Project;

#[derive(Clone, Debug, Serialize, Deserialize)]
pub struct Variant {
    pub hashseed: u64,
    pub perm_seed: Option<u64>,
    /// Run on the warm tree left by the reference build instead of a pristine one.
    pub warm: bool,
}

#[derive(Clone, Debug, Serialize, Deserialize)]
pub struct C24Scenario {
    pub project: Project,
    pub variant: Variant,
}

fn s(v: &[&str]) -> Vec<String> {
    v.iter().map(|x| x.to_string()).collect()
}

#[derive(Clone, Debug, Default)]
struct RunObs {
    build_exit: Option<i32>,
    check_exit: Option<i32>,
    outputs: BTreeMap<String, Vec<u8>>,
    build_diags: Vec<String>,
    check_diags: Vec<String>,
    panicked: Option<String>,
    perm_fired: bool,
    stderr_tail: String,
}

fn run_pair(w: &mut World, v: &Variant) -> Result<RunObs, String> {
    let mut o = RunObs::default();
    for (i, args) in [s(&["build"]), s(&["check"])].iter().enumerate() {
        let mut d = CmdDecider::plain(2);
        d.perm_seed = v.perm_seed;
        let out = w.run(args, v.hashseed, &mut d);
        if let Some(e) = out.harness_error {
            return Err(e);
        }
        if out.panicked() {
            o.panicked = Some(format!("{args:?}: {}", hist::tail(&out.stderr, 400)));
        }
        if out.trace.iter().any(|t| t.kind.starts_with("perm.") && matches!(t.verdict, simcore::coord::Verdict::Value(_))) {
            o.perm_fired = true;
        }
        let mut diags = world::parse_diags(&out.stderr, &w.prj);
        diags.dedup();
        if out.exit != Some(0) {
            o.stderr_tail = format!("{args:?}: {}", hist::tail(&out.stderr, 700));
        }
        if i == 0 {
            o.build_exit = out.exit;
            o.build_diags = diags;
            o.outputs = world::collect_outputs(&w.prj, &w.project.files);
        } else {
            o.check_exit = out.exit;
            o.check_diags = diags;
        }
    }
    Ok(o)
}

/// `X must precede Y` pairs from the reference manifest's dependents map.
fn precedence(w: &World) -> Vec<(String, String)> {
    let mut out = vec![];
    let Ok(text) = std::fs::read_to_string(w.prj.join(".build/cache/manifest.toml")) else {
        return out;
    };
    let stem = |p: &str| std::path::Path::new(p).file_stem().map(|x| x.to_string_lossy().to_string()).unwrap_or_default();
    let mut cur = String::new();
    for line in text.lines() {
        if let Some(rest) = line.strip_prefix("[files.\"") {
            cur = stem(rest.trim_end_matches("\"]"));
        } else if let Some(rest) = line.strip_prefix("dependents = [") {
            for d in rest.trim_end_matches(']').split(',') {
                let d = d.trim().trim_matches('"');
                if !d.is_empty() {
                    out.push((cur.clone(), stem(d)));
                }
            }
        }
    }
    out
}

fn filelist_names(data: &[u8]) -> Vec<String> {
    String::from_utf8_lossy(data)
        .lines()
        .map(|l| {
            let l = l.trim().trim_start_matches("source_file '").trim_end_matches('\'');
            std::path::Path::new(l).file_stem().map(|x| x.to_string_lossy().to_string()).unwrap_or_default()
        })
        .filter(|x| !x.is_empty())
        .collect()
}

pub struct Outcome {
    pub violation: Option<(String, String)>,
    pub skipped: Option<&'static str>,
    pub perm_fired: bool,
}

pub fn run(sc: &C24Scenario) -> Result<Outcome, String> {
    let key = simcore::fsutil::hash_u64(format!("{:?}", sc.project).as_bytes()) ^ 0x24;
    let mut w = World::at(&sc.project, key);
    let pristine = w.snapshot("pristine");
    let (now0, count0) = (w.now, w.cmd_count);
    // Reference: identity order, hash seed 1, fresh process, pristine tree.
    let refv = Variant { hashseed: 1, perm_seed: None, warm: false };
    let r = run_pair(&mut w, &refv)?;
    if r.panicked.is_some() {
        return Ok(Outcome { violation: None, skipped: Some("project-not-error-free"), perm_fired: false });
    }
    if r.build_exit != Some(0) {
        // Not error-free in the reference order. If the very same sources build cleanly under
        // the variant's order or hash seed, being error-free is itself order dependent.
        if !sc.variant.warm {
            w.restore(&pristine);
            w.now = now0;
            w.cmd_count = count0 + 100;
            let v = run_pair(&mut w, &sc.variant)?;
            if v.panicked.is_none() && v.build_exit == Some(0) && (sc.variant.perm_seed.is_some() || sc.variant.hashseed != 1) {
                return Ok(Outcome {
                    violation: Some(("exit".to_string(), format!("the build fails in the reference order and seed ({}) but succeeds under this variant", r.stderr_tail.lines().find(|l| l.contains("Error")).unwrap_or("").trim()))),
                    skipped: None,
                    perm_fired: v.perm_fired,
                });
            }
        }
        return Ok(Outcome { violation: None, skipped: Some("project-not-error-free"), perm_fired: false });
    }
    let prec = precedence(&w);
    if !sc.variant.warm {
        w.restore(&pristine);
        w.now = now0;
        w.cmd_count = count0 + 100;
    }
    let v = run_pair(&mut w, &sc.variant)?;
    if let Some(p) = v.panicked {
        return Ok(Outcome { violation: Some(("panic".into(), p)), skipped: None, perm_fired: v.perm_fired });
    }
    let mut viol = None;
    let mut known: Option<(String, String)> = None;
    if v.build_exit != r.build_exit || v.check_exit != r.check_exit {
        viol = Some(("exit".to_string(), format!("build/check exit {:?}/{:?} but reference order and seed give {:?}/{:?}; {}", v.build_exit, v.check_exit, r.build_exit, r.check_exit, v.stderr_tail)));
    } else if v.check_diags != r.check_diags || v.build_diags != r.build_diags {
        viol = Some(("diagnostics-set".to_string(), format!("diagnostics set differs: {:?} vs reference {:?}", v.check_diags.iter().map(|d| d.lines().next().unwrap_or("").to_string()).collect::<Vec<_>>(), r.check_diags.iter().map(|d| d.lines().next().unwrap_or("").to_string()).collect::<Vec<_>>())));
    } else {
        // emitted files showing a recorded order dependence, by file name (their source maps,
        // wherever the map target puts them, follow)
        let base = |rel: &str| rel.rsplit('/').next().unwrap_or(rel).to_string();
        let mut known_sv: BTreeSet<String> = BTreeSet::new();
        if sc.variant.perm_seed.is_some() {
            for (rel, data) in &r.outputs {
                if let Some(d) = v.outputs.get(rel)
                    && d != data
                    && known_order_shape(rel, d, data, &sc.project).is_some()
                {
                    known_sv.insert(base(rel));
                }
            }
        }
        for (rel, data) in &r.outputs {
            let is_list = rel.ends_with(".f") || rel.ends_with(".list.rb");
            match v.outputs.get(rel) {
                None => {
                    viol = Some(("output-missing".to_string(), format!("{rel} missing")));
                    break;
                }
                Some(d) if d == data => {}
                Some(d) if is_list && sc.variant.perm_seed.is_some() => {
                    // Under a permuted processing order any valid dependency order is allowed.
                    let (a, b) = (filelist_names(d), filelist_names(data));
                    let (sa, sb): (BTreeSet<_>, BTreeSet<_>) = (a.iter().cloned().collect(), b.iter().cloned().collect());
                    if sa != sb || a.len() != b.len() {
                        viol = Some(("filelist-set".to_string(), format!("filelist entries {a:?} vs reference {b:?}")));
                        break;
                    }
                    for (x, y) in &prec {
                        if let (Some(ix), Some(iy)) = (a.iter().position(|n| n == x), a.iter().position(|n| n == y))
                            && ix > iy
                        {
                            viol = Some(("filelist-order".to_string(), format!("{y} depends on {x} but comes first in {a:?}")));
                        }
                    }
                    if viol.is_some() {
                        break;
                    }
                }
                Some(d) if sc.variant.perm_seed.is_some() && sc.project.toml.target == "bundle" && rel.contains("bundle.sv") => {
                    // A bundle is the concatenation of the per-file outputs in filelist
                    // order; under a permuted order it is compared as a multiset of lines.
                    if rel.ends_with(".map") {
                        continue;
                    }
                    let lines = |x: &[u8]| {
                        let mut l: Vec<String> = String::from_utf8_lossy(x).lines().map(|s| s.to_string()).collect();
                        l.sort();
                        l
                    };
                    if lines(d) != lines(data) {
                        // the recorded mixin/modport-default order dependence moves the trailing
                        // comma inside a modport list: same lines once those are normalised
                        let norm = |x: &[u8]| {
                            let mut l = modports_sorted(&String::from_utf8_lossy(x));
                            l.sort();
                            l
                        };
                        if sc.project.files.values().any(|t| t.contains("mixin ") && t.contains("..")) && norm(d) == norm(data) {
                            known.get_or_insert(("output-order:mixin-modport-default-order".to_string(), format!("{rel}: only the member order inside modport lists differs from the reference bundle")));
                            continue;
                        }
                        // the recorded inferred-width dependence: same lines once `[N-1:0]` is masked
                        let masked = |x: &[u8]| {
                            let mut l: Vec<String> = String::from_utf8_lossy(x).lines().map(widths_masked).collect();
                            l.sort();
                            l
                        };
                        if sc.project.files.values().any(|t| t.contains("param ") && has_untyped_let(t)) && masked(d) == masked(data) {
                            known.get_or_insert(("output-order:inferred-width-of-overridden-parameter".to_string(), format!("{rel}: only an inferred width differs from the reference bundle")));
                            continue;
                        }
                        viol = Some(("bundle-content".to_string(), format!("{rel}: line multiset differs from the reference bundle")));
                        break;
                    }
                }
                Some(_) if rel.ends_with(".map") && known_sv.contains(base(rel).trim_end_matches(".map")) => {}
                Some(d) if sc.variant.perm_seed.is_some() && known_order_shape(rel, d, data, &sc.project).is_some() => {
                    // a recorded finding (known_findings.json): remembered, the scan goes on so
                    // that any other difference of this run is still reported instead
                    let k = known_order_shape(rel, d, data, &sc.project).unwrap();
                    known.get_or_insert((format!("output-order:{k}"), format!("{rel}: same blocks, other order than the reference build ({k})")));
                }
                Some(d) => {
                    let class = if is_list { "filelist-bytes" } else if rel.ends_with(".map") { "map-bytes" } else { "output-bytes" };
                    viol = Some((class.to_string(), format!("{rel}: {:?} vs reference {:?}", String::from_utf8_lossy(&d[..d.len().min(240)]), String::from_utf8_lossy(&data[..data.len().min(240)]))));
                    break;
                }
            }
        }
        if viol.is_none() && v.outputs.len() != r.outputs.len() {
            viol = Some(("output-extra".to_string(), format!("outputs {:?} vs reference {:?}", v.outputs.keys().collect::<Vec<_>>(), r.outputs.keys().collect::<Vec<_>>())));
        }
    }
    Ok(Outcome { violation: viol.or(known), skipped: None, perm_fired: v.perm_fired })
}

/// `[<digits>-1:0]` -> `[#-1:0]`
fn widths_masked(t: &str) -> String {
    let mut out = String::new();
    let mut rest = t;
    while let Some(i) = rest.find('[') {
        out.push_str(&rest[..=i]);
        rest = &rest[i + 1..];
        let digits = rest.chars().take_while(|c| c.is_ascii_digit()).count();
        if digits > 0 && rest[digits..].starts_with("-1:0]") {
            out.push('#');
            rest = &rest[digits..];
        }
    }
    out.push_str(rest);
    out
}

fn has_untyped_let(src: &str) -> bool {
    src.lines().any(|l| l.trim_start().strip_prefix("let ").is_some_and(|r| r.split('=').next().is_some_and(|lhs| !lhs.contains(':'))))
}

/// Lines of an emitted text with the members of every `modport X ( ... );` list sorted and
/// stripped of their separating commas.
fn modports_sorted(t: &str) -> Vec<String> {
    let mut out: Vec<String> = vec![];
    let mut inside: Option<Vec<String>> = None;
    for l in t.lines() {
        match inside.as_mut() {
            Some(members) => {
                if l.trim() == ");" {
                    members.sort();
                    out.append(members);
                    out.push(l.to_string());
                    inside = None;
                } else {
                    members.push(l.trim().trim_end_matches(',').to_string());
                }
            }
            None => {
                out.push(l.to_string());
                if l.trim_start().starts_with("modport ") && l.trim_end().ends_with('(') {
                    inside = Some(vec![]);
                }
            }
        }
    }
    out
}

/// The recorded order dependences of emitted code, recognised by their exact shape: the
/// emitted file consists of the same blocks (generic specialisations) in another order and
/// its source declares a generic; or it differs only in the member order inside `modport`
/// lists and its source mixes in another interface and has a modport default.
fn known_order_shape(rel: &str, got: &[u8], want: &[u8], project: &Project) -> Option<&'static str> {
    if !rel.ends_with(".sv") {
        return None;
    }
    let stem = std::path::Path::new(rel).file_stem()?.to_string_lossy().to_string();
    let src = project.files.iter().find(|(k, _)| k.ends_with(&format!("/{stem}.veryl")) || **k == format!("{stem}.veryl")).map(|(_, v)| v.as_str())?;
    let (a, b) = (String::from_utf8_lossy(got).to_string(), String::from_utf8_lossy(want).to_string());
    let blocks = |t: &str| {
        let mut out = vec![];
        let mut cur = String::new();
        for l in t.lines() {
            cur.push_str(l);
            cur.push('\n');
            if l.starts_with("endmodule") || l.starts_with("endinterface") || l.starts_with("endpackage") {
                out.push(std::mem::take(&mut cur).trim().to_string());
            }
        }
        out.push(cur.trim().to_string());
        out.sort();
        out
    };
    if src.contains("::<") && blocks(&a) == blocks(&b) {
        return Some("generic-instance-order");
    }
    if src.contains("mixin ") && src.contains("..") && modports_sorted(&a) == modports_sorted(&b) {
        return Some("mixin-modport-default-order");
    }
    if src.contains("param ") && has_untyped_let(src) && widths_masked(&a) == widths_masked(&b) {
        return Some("inferred-width-of-overridden-parameter");
    }
    None
}

pub fn gen_project(seed: u64) -> Project {
    let mut rng = Rng::new(seed);
    // Error-free by construction most of the time (variant 0), warnings allowed.
    let clean = rng.chance(2, 3);
    let mut g = wgen::gen_project(&mut rng, clean, false);
    // more files => more orders: add a second and third unit's files when small
    if g.project.files.len() < 4 {
        let extra = wgen::gen_project(&mut rng, true, false);
        for (k, v) in extra.project.files {
            g.project.files.entry(k).or_insert(v);
        }
    }
    // One generic instantiated with different arguments from two files: the order of the
    // emitted specialisations must not follow the processing order.
    if rng.chance(1, 4) {
        for u in wgen::shapes::units() {
            if u.name == "generic" {
                for (k, sl) in u.slots.iter().enumerate() {
                    g.project.files.insert(sl.path.to_string(), sl.variants[if k == 2 { 1 } else { 0 }].to_string());
                }
            }
        }
    }
    // A generic wrapper in one file instantiating a plain module of another file whose body has
    // inferred types: whichever file is analysed first elaborates the plain module first.
    if rng.chance(1, 4) {
        g.project.files.insert("src/sub_plain.veryl".into(), "module SubPlain (\n    i_d: input  logic<8>,\n    o_d: output logic<8>,\n) {\n    let t: logic<8> = i_d;\n    let u = t;\n    assign o_d = u;\n}\n".into());
        g.project.files.insert("src/wrap_g.veryl".into(), "module WrapG::<W: u32> (\n    i_d: input  logic<8>,\n    o_d: output logic<8>,\n    o_w: output logic<W>,\n) {\n    inst u_sub: SubPlain (\n        i_d: i_d,\n        o_d: o_d,\n    );\n    assign o_w = 0;\n}\n".into());
        g.project.files.insert("src/wrap_top.veryl".into(), "module WrapTop (\n    i_d: input  logic<8>,\n    o_d: output logic<8>,\n    o_w: output logic<4>,\n) {\n    inst u_wrap: WrapG::<4> (\n        i_d: i_d,\n        o_d: o_d,\n        o_w: o_w,\n    );\n}\n".into());
    }
    // A modport that copies (`..same`) a modport of a mixed-in interface of another file which
    // itself has a default: the copied members exist only once the mixed-in interface has been
    // resolved, whatever the order.
    if rng.chance(1, 5) {
        g.project.files.insert("src/a_src_if.veryl".into(), "interface SrcIf {\n    var x : logic;\n    var x2: logic;\n    modport mp_x {\n        ..input\n    }\n}\n".into());
        g.project.files.insert("src/m_host_if.veryl".into(), "interface HostIf {\n    mixin SrcIf;\n    var y: logic;\n    modport mp {\n        y: output,\n        ..same(mp_x)\n    }\n}\nmodule HostUser (\n    p: modport HostIf::mp,\n) {\n    assign p.y = p.x & p.x2;\n}\n".into());
    }
    // A parameterised module with an inferred-type declaration, instantiated with an overridden
    // parameter from another file: the resolved type of the declaration must not be the one of
    // whichever elaboration ran last.
    if rng.chance(1, 5) {
        g.project.files.insert("src/p_sub.veryl".into(), "module PSub #(\n    param W: u32 = 4,\n) (\n    a: input  logic<W + 1>,\n    o: output logic<W + 1>,\n) {\n    let t = a;\n    assign o = t;\n}\n".into());
        g.project.files.insert("src/p_top.veryl".into(), "module PTop (\n    a: input  logic<9>,\n    o: output logic<9>,\n) {\n    inst u: PSub #(\n        W: 8,\n    ) (\n        a: a,\n        o: o,\n    );\n}\n".into());
    }
    // A diagnostics limit makes "which diagnostics survive" a function of the processing
    // order if anything but errors is counted against it.
    if rng.chance(1, 2) {
        g.project.toml.extra_build.push(format!("error_count_limit = {}", 1 + rng.below(3)));
        for (name, module) in [("src/a_warn.veryl", "AWarn"), ("src/m_warn.veryl", "MWarn"), ("src/z_warn.veryl", "ZWarn")] {
            g.project.files.insert(
                name.to_string(),
                format!("module {module} (\n    i: input  logic,\n    o: output logic,\n) {{\n    let unused_{}: logic = i;\n    let unused2_{}: logic = i;\n    assign o = i;\n}}\n", module.to_lowercase(), module.to_lowercase()),
            );
        }
        // ... which only matters with several warnings spread over several files
        for (path, variant) in [("src/mod_b.veryl", 3usize), ("src/diag.veryl", 1), ("src/attr_m.veryl", 1), ("examples/ex_top.veryl", 1), ("src/sub.veryl", 1)] {
            for u in wgen::shapes::units() {
                for sl in &u.slots {
                    if sl.path == path && g.project.files.contains_key(path) && rng.chance(3, 4) {
                        g.project.files.insert(path.to_string(), sl.variants[variant].to_string());
                    }
                }
            }
        }
    }
    g.project
}

pub fn check(tier: &str) -> i32 {
    let seed = verif_seed();
    let (n_projects, n_variants) = if tier == "thorough" { (150, 40) } else { (12, 12) };
    let start = std::time::Instant::now();
    println!("procsim C24 tier={tier} VERIF_SEED={seed} projects={n_projects} variants={n_variants}");
    let jobs = simcore::pool::workers();
    let mut scenarios = vec![];
    for p in 0..n_projects {
        let project = gen_project(mix(seed, "C24", p as u64));
        let mut rng = Rng::new(mix(seed, "C24v", p as u64));
        for k in 0..n_variants {
            let variant = match k % 4 {
                0 => Variant { hashseed: 2 + rng.next_u64() % 1_000_000, perm_seed: None, warm: false },
                1 => Variant { hashseed: 1, perm_seed: Some(1 + rng.next_u64() % 1_000_000), warm: false },
                2 => Variant { hashseed: 2 + rng.next_u64() % 1_000_000, perm_seed: Some(1 + rng.next_u64() % 1_000_000), warm: false },
                _ => {
                    if k == 3 {
                        // the identical run once more: byte-identical or bust
                        Variant { hashseed: 1, perm_seed: None, warm: false }
                    } else {
                        Variant { hashseed: 2 + rng.next_u64() % 1_000_000, perm_seed: Some(1 + rng.next_u64() % 1_000_000), warm: true }
                    }
                }
            };
            scenarios.push(C24Scenario { project: project.clone(), variant });
        }
    }
    // Same project = same world path: run the variants of one project sequentially.
    let results = simcore::pool::par_map(n_projects, jobs, |p| {
        let mut v = vec![];
        for k in 0..n_variants {
            let sc = &scenarios[p * n_variants + k];
            v.push((p * n_variants + k, run(sc)));
        }
        v
    });
    let mut rep = Reporter::new("C24", seed);
    let mut probes = Counters::default();
    let mut distinct = BTreeSet::new();
    let mut samples = vec![];
    let mut seen = BTreeSet::new();
    let mut evals = 0u64;
    for (idx, r) in results.into_iter().flatten() {
        let sc = &scenarios[idx];
        evals += 1;
        match r {
            Err(e) => rep.harness_error(&e),
            Ok(o) => {
                if let Some(sk) = o.skipped {
                    probes.inc(&format!("skipped.{sk}"));
                    continue;
                }
                probes.inc(match (sc.variant.perm_seed.is_some(), sc.variant.hashseed != 1, sc.variant.warm) {
                    (_, _, true) => "variant.warm_tree_permuted",
                    (true, true, _) => "variant.permuted_and_hashseed",
                    (true, false, _) => "variant.permuted",
                    (false, true, _) => "variant.hashseed",
                    (false, false, _) => "variant.identical_rerun",
                });
                if o.perm_fired {
                    probes.inc("fault.order_permutation_fired");
                }
                if sc.variant.perm_seed.is_some() || sc.variant.hashseed != 1 {
                    distinct.insert(simcore::fsutil::hash_u64(format!("{sc:?}").as_bytes()));
                }
                if samples.len() < 4 && idx % 7 == 1 {
                    samples.push(json!({"files": sc.project.files.keys().collect::<Vec<_>>(), "variant": sc.variant}));
                }
                if let Some((class, detail)) = o.violation {
                    let key = format!("{class}|perm={}|hash={}", sc.variant.perm_seed.is_some(), sc.variant.hashseed != 1);
                    let known = rep.is_known(&key).is_some();
                    if seen.insert(key.clone()) || known {
                        // minimise: drop files while the class persists
                        let mut best = sc.clone();
                        if !known {
                            let names: Vec<String> = best.project.files.keys().cloned().collect();
                            for n in names {
                                let mut cand = best.clone();
                                cand.project.files.remove(&n);
                                if run(&cand).ok().and_then(|o| o.violation).is_some_and(|v| v.0 == class) {
                                    best = cand;
                                }
                            }
                        }
                        rep.report(Found { key, class, detail, replay: json!({"scenario": best}) });
                    }
                }
            }
        }
    }
    for p in ["variant.permuted", "variant.hashseed", "variant.identical_rerun", "fault.order_permutation_fired"] {
        if probes.get(p) == 0 {
            rep.harness_error(&format!("reach probe {p} stayed at zero"));
        }
    }
    let wall = start.elapsed().as_secs_f64();
    let mut extra = serde_json::Map::new();
    extra.insert("probes".into(), probes.to_json());
    extra.insert("runs_per_hour".into(), json!((evals as f64 / wall * 3600.0) as u64));
    extra.insert("components".into(), json!({"real": ["veryl CLI binary: build and check on pristine and warm trees"], "simulated": ["file processing order (Metadata::paths permutation hook)", "RandomState keys of the process (getrandom override)", "clock"], "not_covered": ["thread-local ID offsets of a reused thread (needs an in-process second build; exercised by fragsim for C06)"]}));
    Evidence {
        property_id: "C24".into(),
        tier: tier.into(),
        seed,
        level: "exploration".into(),
        evaluations: evals,
        distinct_nontrivial: distinct.len() as u64,
        rule: "seeded error-free projects (4-9 files from the shape library) x variants {other hash seed, permuted processing order, both, identical re-run, permuted order on the warm tree}; build+check of each variant compared with the reference (identity order, hash seed 1): all emitted files byte-identical, diagnostics sets equal; under a permuted order the filelist is compared as a set and checked against the reference dependency map. distinct_nontrivial = distinct (project, variant) pairs with a permutation or a different hash seed".into(),
        samples,
        extra,
        assumptions: vec!["projects whose reference build is not error-free are skipped (the property is stated for error-free projects)".into()],
        wall_s: wall,
        violations: rep.violations,
    }
    .write();
    println!("C24: evaluations={evals} distinct={} violations={} known={} wall={wall:.1}s", distinct.len(), rep.violations, rep.known_hits);
    rep.exit
}

pub fn replay(path: &str) -> i32 {
    let text = std::fs::read_to_string(path).expect("read replay");
    let v: serde_json::Value = serde_json::from_str(&text).expect("parse replay");
    let sc: C24Scenario = serde_json::from_value(v["scenario"].clone()).expect("scenario");
    match run(&sc) {
        Err(_) => 2,
        Ok(o) => Reporter::replay_result("C24", path, o.violation),
    }
}
