//! C05 — crashes and cache damage never leave a build wrong.
//!
//! For explored states of C04-style histories: every gate of the pending
//! command is a crash point (data gates additionally torn), every file under
//! `.build` is deleted / truncated / bit-flipped / replaced, and write gates
//! fail with I/O errors. After the fault the history continues (optionally an
//! edit, then build/check) and every such command is compared with a pristine
//! reference run; nothing may panic.

use crate::hist::{self, RefMemo, RunCtx, Scenario, Violation};
use crate::report::{Found, Reporter};
use crate::world::{CmdDecider, FaultSpec, World};
use serde::{Deserialize, Serialize};
use serde_json::json;
use simcore::evidence::{Counters, Evidence};
use simcore::rng::{mix, verif_seed, Rng};
use std::collections::BTreeSet;
use wgen::Step;

#[derive(Clone, Debug, Serialize, Deserialize, PartialEq)]
pub enum Damage {
    Delete,
    /// Truncate to: 0,1,7,8 literal; u64::MAX/2 = len/2; u64::MAX-1 = len-1.
    Truncate(u64),
    /// Flip `bit` of the byte at `pos` (pos % len).
    Flip { pos: u64, bit: u8 },
    Garbage,
    /// Truncate a TOML file right before its k-th table header (k modulo the number of
    /// headers, never the first): the remainder is still valid TOML with entries missing.
    TruncateAtEntry(u32),
    /// Overwrite with the bytes of another file under `.build` (index into the sorted list).
    SwapWith(usize),
}

#[derive(Clone, Debug, Serialize, Deserialize, PartialEq)]
pub enum Fault {
    Crash(FaultSpec),
    Io(FaultSpec),
    /// Damage `.build/<file>` after the pending command completed.
    Damage { file: String, damage: Damage },
}

#[derive(Clone, Debug, Serialize, Deserialize)]
pub struct C05Scenario {
    /// Replica slot: part of the world's path, so that a replay runs at the
    /// same absolute path as the run that found the violation.
    #[serde(default)]
    pub slot: u64,
    pub base: Scenario,
    pub pending: Vec<String>,
    pub fault: Fault,
    pub after: Vec<Step>,
}

fn s(v: &[&str]) -> Vec<String> {
    v.iter().map(|x| x.to_string()).collect()
}

/// `.build` files under location-independent names: blob file names are hashes
/// of content that embeds absolute paths, so blobs are addressed through the
/// manifest as `frag:<source>` / `diag:<source>`; everything else by relative path.
fn build_files(w: &World) -> Vec<(String, std::path::PathBuf)> {
    let root = w.prj.join(".build");
    let mut named: Vec<(String, std::path::PathBuf)> = vec![];
    let mut blob_names = std::collections::BTreeMap::new();
    if let Ok(text) = std::fs::read_to_string(root.join("cache/manifest.toml")) {
        let mut cur = String::new();
        for line in text.lines() {
            if let Some(rest) = line.strip_prefix("[files.\"") {
                cur = rest.trim_end_matches("\"]").to_string();
                cur = cur.rsplit("/src/").next().unwrap_or(&cur).to_string();
            } else if let Some(rest) = line.strip_prefix("fragment = \"") {
                blob_names.insert(rest.trim_end_matches('"').to_string(), format!("frag:{cur}"));
            } else if let Some(rest) = line.strip_prefix("diagnostics = \"") {
                blob_names.insert(rest.trim_end_matches('"').to_string(), format!("diag:{cur}"));
            }
        }
    }
    for p in simcore::fsutil::walk(&root) {
        let Ok(rel) = p.strip_prefix(&root) else { continue };
        let rel = rel.to_string_lossy().to_string();
        if let Some(r) = rel.strip_prefix("cache/") {
            if let Some(n) = blob_names.get(r) {
                named.push((n.clone(), p.clone()));
                continue;
            }
        }
        if rel.contains("/.tmp") || rel.starts_with(".tmp") {
            continue;
        }
        named.push((rel, p.clone()));
    }
    named.sort();
    named
}

fn apply_damage(file: &str, damage: &Damage, all: &[(String, std::path::PathBuf)]) -> bool {
    let Some((_, path)) = all.iter().find(|(n, _)| n == file) else {
        return false;
    };
    let Ok(data) = std::fs::read(path) else {
        return false;
    };
    match damage {
        Damage::Delete => std::fs::remove_file(path).is_ok(),
        Damage::Truncate(n) => {
            let n = crate::world::resolve_prefix(*n, data.len() as u64) as usize;
            std::fs::write(path, &data[..n]).is_ok()
        }
        Damage::Flip { pos, bit } => {
            if data.is_empty() {
                return false;
            }
            let mut d = data.clone();
            let i = (*pos % d.len() as u64) as usize;
            d[i] ^= 1 << (bit % 8);
            std::fs::write(path, d).is_ok()
        }
        Damage::Garbage => std::fs::write(path, b"\x00\xffgarbage\n[[[").is_ok(),
        Damage::TruncateAtEntry(k) => {
            let Ok(text) = std::str::from_utf8(&data) else { return false };
            let mut offs = vec![];
            let mut pos = 0;
            for line in text.split_inclusive('\n') {
                if line.starts_with('[') {
                    offs.push(pos);
                }
                pos += line.len();
            }
            if offs.len() < 2 {
                return false;
            }
            let cut = offs[1 + (*k as usize) % (offs.len() - 1)];
            std::fs::write(path, &data[..cut]).is_ok()
        }
        Damage::SwapWith(i) => {
            let other = &all[*i % all.len()].1;
            match std::fs::read(other) {
                Ok(o) if o != data => std::fs::write(path, o).is_ok(),
                _ => false,
            }
        }
    }
}

pub struct Outcome {
    pub violation: Option<Violation>,
    pub fired: Option<String>,
    pub skipped: bool,
}

/// Runs prefix, fault, and the after-steps. `ctx` collects statistics.
pub fn run(sc: &C05Scenario, ctx: &mut RunCtx) -> Result<Outcome, String> {
    let mut w = World::at(&sc.base.project, hist::scenario_key(&sc.base) ^ (sc.slot + 1).wrapping_mul(0x9e3779b97f4a7c15));
    // Prefix: a C04 violation here is C04's business; the scenario is skipped.
    if hist::run_history_in(&mut w, &sc.base, ctx)?.is_some() {
        return Ok(Outcome { violation: None, fired: None, skipped: true });
    }
    run_from(&mut w, sc, ctx)
}

pub fn run_from(w: &mut World, sc: &C05Scenario, ctx: &mut RunCtx) -> Result<Outcome, String> {
    let nsteps = sc.base.steps.len();
    let mut fired = None;
    match &sc.fault {
        Fault::Crash(f) | Fault::Io(f) => {
            let hashseed = hist::hashseed_for(&w.project, &sc.pending);
            let mut d = CmdDecider::plain(3);
            d.fault = f.clone();
            let out = w.run(&sc.pending, hashseed, &mut d);
            *ctx.cmds += 1;
            if let Some(e) = &out.harness_error {
                return Err(format!("faulted command {:?}: {e}", sc.pending));
            }
            fired = d.fired.clone();
            if matches!(sc.fault, Fault::Crash(_)) {
                if !out.sim_crashed {
                    // The gate index lies beyond the command's gates: nothing was injected.
                    return Ok(Outcome { violation: None, fired: None, skipped: true });
                }
            } else if out.panicked() {
                ctx.probes.inc("io_observation.panic_in_failing_command");
            }
            if sc.pending.first().map(|x| x.as_str()) == Some("fmt") {
                w.adopt_sources();
            }
        }
        Fault::Damage { file, damage } => {
            let (_, v) = hist::exec_and_compare(w, &sc.pending, nsteps, sc.base.seed, ctx)?;
            if v.is_some() {
                return Ok(Outcome { violation: None, fired: None, skipped: true });
            }
            let all = build_files(w);
            if !apply_damage(file, damage, &all) {
                return Ok(Outcome { violation: None, fired: None, skipped: true });
            }
            fired = Some(format!("damage:{}", file_class(file)));
        }
    }
    // Faults have stopped. Everything from here on must equal a clean run.
    for (i, step) in sc.after.iter().enumerate() {
        match step {
            Step::Cmd { args } => {
                let (_, v) = hist::exec_and_compare(w, args, nsteps + 1 + i, sc.base.seed ^ 0x55, ctx)?;
                if let Some(mut v) = v {
                    // A divergence that the listed C04 finding explains (it needs no fault:
                    // an unchanged generic definition whose instantiations changed elsewhere)
                    // is C04's, not a consequence of the fault.
                    let mut whole = sc.base.clone();
                    whole.steps.push(Step::Cmd { args: sc.pending.clone() });
                    whole.steps.extend(sc.after.iter().cloned());
                    let mut vv = v.clone();
                    vv.step = nsteps + 1 + i;
                    if crate::c04::known_tag(&whole, &vv).is_some() {
                        ctx.probes.inc("after.diverged_by_known_c04_finding");
                        return Ok(Outcome { violation: None, fired, skipped: true });
                    }
                    if matches!(sc.fault, Fault::Io(_)) {
                        // I/O errors are outside C05's fault model (death and .build damage):
                        // divergences after them are counted, never reported.
                        ctx.probes.inc(&format!("io_observation.diverged:{}", v.class));
                        return Ok(Outcome { violation: None, fired, skipped: false });
                    }
                    v.class = format!("after-fault:{}", v.class);
                    return Ok(Outcome { violation: Some(v), fired, skipped: false });
                }
            }
            other => w.apply_edit(other, 5000 + i as u64),
        }
    }
    Ok(Outcome { violation: None, fired, skipped: false })
}

pub fn file_class(file: &str) -> &'static str {
    if file.ends_with("manifest.toml") {
        "manifest"
    } else if file.ends_with("info.toml") {
        "info.toml"
    } else if file.starts_with("frag:") {
        "fragment-blob"
    } else if file.starts_with("diag:") {
        "diagnostics-blob"
    } else if file.ends_with(".frag") {
        "orphan-blob"
    } else if file.ends_with("lock") {
        "lockfile"
    } else if file.ends_with("test_timings") {
        "test_timings"
    } else {
        "other"
    }
}

const PENDING: &[&[&str]] = &[&["build"], &["build"], &["build"], &["check"], &["test", "--seed", "7", "--format", "json", "--backend", "cranelift"]];

/// A base history (ending in at least one successful build), an edit that
/// makes the pending command do real work, and the pending command.
pub fn gen_state(seed: u64) -> (Scenario, Vec<String>, wgen::Generated) {
    let mut rng = Rng::new(seed);
    let with_tests = rng.chance(1, 4);
    let g = wgen::gen_project(&mut rng, true, with_tests);
    let mut steps = vec![Step::Cmd { args: s(&["build"]) }];
    // a few edits + commands, then one more edit so that the pending command has misses
    let cmds: &[&[&str]] = &[&["build"], &["check"]];
    let nextra = 1 + rng.below(4);
    let extra = wgen::gen_history(&mut rng, &g, nextra, cmds);
    steps.extend(extra.into_iter().filter(|s| !matches!(s, Step::EditOutput { .. } | Step::SetToml { .. })));
    // one more edit so that the pending command has real work to do (misses, rewrites, GC)
    {
        let slots: Vec<&wgen::Slot> = g.units.iter().flat_map(|u| u.slots.iter()).collect();
        let slot = *rng.pick(&slots);
        let v = if rng.chance(3, 4) { 1 + rng.below(slot.variants.len() - 1) } else { 0 };
        match rng.below(10) {
            0 => steps.push(Step::DeleteOutput { path: wgen::output_of(&g.project.toml, slot.path) }),
            1 => steps.push(Step::Touch { path: slot.path.to_string() }),
            _ => steps.push(Step::Write { path: slot.path.to_string(), content: slot.variants[v].to_string() }),
        }
    }
    let pending = s(PENDING[rng.below(if with_tests { PENDING.len() } else { 4 })]);
    (Scenario { project: g.project.clone(), steps, seed }, pending, g)
}

fn gen_after(rng: &mut Rng, g: &wgen::Generated, base: &Scenario) -> Vec<Step> {
    let mut after = vec![];
    let r = rng.below(10);
    if r < 4 {
        // an edit between the fault and the recovery build
        let slots: Vec<&wgen::Slot> = g.units.iter().flat_map(|u| u.slots.iter()).collect();
        let slot = *rng.pick(&slots);
        if base.project.files.contains_key(slot.path) {
            let v = rng.below(slot.variants.len());
            after.push(Step::Write { path: slot.path.to_string(), content: slot.variants[v].to_string() });
        }
    } else if r < 6 {
        after.push(Step::Cmd { args: s(&["check"]) });
    }
    after.push(Step::Cmd { args: s(&["build"]) });
    if rng.chance(1, 3) {
        after.push(Step::Cmd { args: s(&["check"]) });
    }
    after
}

fn key_of(sc: &C05Scenario, v: &Violation, fired: &Option<String>) -> String {
    let fault = match &sc.fault {
        Fault::Crash(f) => format!("{}{}", fired.clone().unwrap_or("crash".into()), if f.prefix.is_some() { "+torn" } else { "" }),
        Fault::Io(_) => fired.clone().unwrap_or("io".into()),
        Fault::Damage { file, damage } => format!(
            "damage:{}:{}",
            file_class(file),
            match damage {
                Damage::Delete => "delete",
                Damage::Truncate(_) => "truncate",
                Damage::Flip { .. } => "bitflip",
                Damage::Garbage => "garbage",
                Damage::TruncateAtEntry(_) => "truncate-at-entry",
                Damage::SwapWith(_) => "swap",
            }
        ),
    };
    format!("{}|{}|pending={}", v.class, fault, sc.pending.first().cloned().unwrap_or_default())
}

struct Part {
    evals: u64,
    cmds: u64,
    sim_ms: u64,
    probes: Counters,
    states: BTreeSet<u64>,
    distinct: BTreeSet<u64>,
    found: Vec<(C05Scenario, Violation, Option<String>)>,
    errors: Vec<String>,
    samples: Vec<serde_json::Value>,
}

/// All fault cases of one state, derived deterministically from the dry run.
fn cases_for(
    base: &Scenario,
    pending: &[String],
    g: &wgen::Generated,
    gates: &[(String, String)],
    files: &[String],
    sseed: u64,
    damage_per_state: usize,
    io_per_state: usize,
) -> Vec<C05Scenario> {
    let mut rng = Rng::new(sseed ^ 0xabcdef);
    let mut v = vec![];
    for (k, (kind, _)) in gates.iter().enumerate() {
        let mut prefixes = vec![None];
        if kind.ends_with(".data") {
            prefixes.extend([Some(0u64), Some(1), Some(u64::MAX / 2), Some(u64::MAX - 1)]);
        }
        for p in prefixes {
            v.push(C05Scenario {
                slot: 0,
                base: base.clone(),
                pending: pending.to_vec(),
                fault: Fault::Crash(FaultSpec { crash_at: Some(k), prefix: p, io_at: None }),
                after: gen_after(&mut rng, g, base),
            });
        }
    }
    let io_gates: Vec<usize> = gates
        .iter()
        .enumerate()
        .filter(|(_, (kind, _))| {
            matches!(kind.as_str(), "aw.create" | "aw.data" | "aw.rename" | "info.open" | "info.data" | "timings.open" | "timings.data" | "lock.acq" | "gc.remove" | "clean.remove")
        })
        .map(|(k, _)| k)
        .collect();
    for _ in 0..io_per_state.min(io_gates.len()) {
        let k = *rng.pick(&io_gates);
        let errno = *rng.pick(&[28, 5, 13]);
        v.push(C05Scenario {
            slot: 0,
            base: base.clone(),
            pending: pending.to_vec(),
            fault: Fault::Io(FaultSpec { crash_at: None, prefix: None, io_at: Some((k, errno)) }),
            after: gen_after(&mut rng, g, base),
        });
    }
    let mut must = vec![];
    let mut dmg = vec![];
    for f in files {
        must.push((f.clone(), Damage::Delete));
        must.push((f.clone(), Damage::Garbage));
        if f.ends_with(".toml") {
            for k in 0..3u32 {
                must.push((f.clone(), Damage::TruncateAtEntry(k)));
            }
        }
        for t in [0, 1, 7, 8, u64::MAX / 2, u64::MAX - 1] {
            dmg.push((f.clone(), Damage::Truncate(t)));
        }
        for pos in 0..12u64 {
            dmg.push((f.clone(), Damage::Flip { pos, bit: (pos % 8) as u8 }));
        }
        for _ in 0..12 {
            dmg.push((f.clone(), Damage::Flip { pos: rng.next_u64(), bit: rng.below(8) as u8 }));
        }
        dmg.push((f.clone(), Damage::SwapWith(rng.below(files.len().max(1)))));
    }
    rng.shuffle(&mut dmg);
    must.extend(dmg.into_iter().take(damage_per_state));
    for (f, dm) in must {
        v.push(C05Scenario {
            slot: 0,
            base: base.clone(),
            pending: pending.to_vec(),
            fault: Fault::Damage { file: f, damage: dm },
            after: gen_after(&mut rng, g, base),
        });
    }
    v
}

pub fn check(tier: &str) -> i32 {
    let seed = verif_seed();
    let (n_states, damage_per_state, io_per_state) = if tier == "thorough" { (24, 80, 12) } else { (8, 30, 6) };
    let start = std::time::Instant::now();
    let jobs = simcore::pool::workers();
    // A state is materialised `replicas` times (at different paths) so that its cases,
    // which are run by restore-in-place, spread over all cores.
    let replicas = (jobs / n_states).max(1);
    println!("procsim C05 tier={tier} VERIF_SEED={seed} states={n_states} replicas={replicas}");

    let parts = simcore::pool::par_map(n_states * replicas, jobs, |item| {
        let (i, r) = (item / replicas, item % replicas);
        let sseed = mix(seed, "C05", i as u64);
        let (base, pending, g) = gen_state(sseed);
        let mut memo = RefMemo::new();
        let mut part = Part {
            evals: 0,
            cmds: 0,
            sim_ms: 0,
            probes: Counters::default(),
            states: BTreeSet::new(),
            distinct: BTreeSet::new(),
            found: vec![],
            errors: vec![],
            samples: vec![],
        };
        let mut ctx = RunCtx { memo: &mut memo, probes: &mut part.probes, cmds: &mut part.cmds, sim_ms: &mut part.sim_ms, states: &mut part.states };
        let mut w = World::at(&base.project, hist::scenario_key(&base) ^ (r as u64 + 1).wrapping_mul(0x9e3779b97f4a7c15));
        match hist::run_history_in(&mut w, &base, &mut ctx) {
            Ok(None) => {}
            Ok(Some(_)) => {
                ctx.probes.inc("state.skipped_c04_violation_in_prefix");
                return part;
            }
            Err(e) => {
                part.errors.push(e);
                return part;
            }
        }
        let snap = w.snapshot("snap");
        let (snap_now, snap_project, snap_count) = (w.now, w.project.clone(), w.cmd_count);
        // dry run of the pending command: its gate list and the resulting .build listing
        let hashseed = hist::hashseed_for(&w.project, &pending);
        let mut d = CmdDecider::plain(3);
        let out = w.run(&pending, hashseed, &mut d);
        *ctx.cmds += 1;
        if let Some(e) = out.harness_error {
            part.errors.push(e);
            return part;
        }
        let gates: Vec<(String, String)> = out.trace.iter().filter(|t| t.actor == "p0").map(|t| (t.kind.clone(), t.path.clone())).collect();
        let files: Vec<String> = build_files(&w).into_iter().map(|x| x.0).collect();
        let cases = cases_for(&base, &pending, &g, &gates, &files, sseed, damage_per_state, io_per_state);
        if r == 0 {
            ctx.probes.add("gates.in_pending_commands", gates.len() as u64);
            ctx.probes.add("files.under_dot_build", files.len() as u64);
        }
        for (ci, sc) in cases.iter().enumerate() {
            if ci % replicas != r {
                continue;
            }
            w.restore(&snap);
            w.now = snap_now;
            w.project = snap_project.clone();
            w.cmd_count = snap_count + 1 + ci * 8;
            part.evals += 1;
            match run_from(&mut w, sc, &mut ctx) {
                Ok(o) => {
                    if o.skipped {
                        ctx.probes.inc("case.skipped");
                    } else {
                        if let Some(f) = &o.fired {
                            ctx.probes.inc(&format!("fault.{f}"));
                        }
                        part.distinct.insert(simcore::fsutil::hash_u64(format!("{:?}", sc).as_bytes()));
                    }
                    if let Some(v) = o.violation {
                        let mut sc = sc.clone();
                        sc.slot = r as u64;
                        part.found.push((sc, v, o.fired));
                    }
                }
                Err(e) => part.errors.push(e),
            }
            if part.samples.is_empty() && ci % 41 == 7 {
                part.samples.push(json!({"files": sc.base.project.files.keys().collect::<Vec<_>>(), "prefix_steps": sc.base.steps.len(), "pending": sc.pending, "fault": sc.fault, "after": sc.after.iter().map(|s| format!("{s:?}").chars().take(80).collect::<String>()).collect::<Vec<_>>()}));
            }
        }
        *ctx.sim_ms += w.now.saturating_sub(crate::world::EPOCH_MS);
        part
    });

    let mut rep = Reporter::new("C05", seed);
    let mut evals = 0;
    let mut cmds = 0;
    let mut sim_ms = 0;
    let mut probes = Counters::default();
    let mut states = BTreeSet::new();
    let mut distinct = BTreeSet::new();
    let mut samples = vec![];
    let mut found = vec![];
    for p in parts {
        evals += p.evals;
        cmds += p.cmds;
        sim_ms += p.sim_ms;
        probes.merge(&p.probes);
        states.extend(p.states);
        distinct.extend(p.distinct);
        if samples.len() < 5 {
            samples.extend(p.samples);
        }
        found.extend(p.found);
        for e in p.errors {
            rep.harness_error(&e);
        }
    }
    let mut seen = BTreeSet::new();
    for (sc, v, fired) in found {
        let key = key_of(&sc, &v, &fired);
        let known = rep.is_known(&key).is_some();
        if !seen.insert(key.clone()) && !known {
            continue;
        }
        if known {
            rep.report(Found { key, class: v.class.clone(), detail: v.detail.clone(), replay: json!({}) });
            continue;
        }
        // The enumeration ran from a restored snapshot; the replay file re-runs the
        // prefix. Only a violation that also shows that way is reported.
        let min = minimise(&sc, &v.class);
        rep.report(Found {
            key,
            class: v.class.clone(),
            detail: format!("pending {:?} fault {:?}: {}", sc.pending, fired, v.detail),
            replay: json!({"scenario": min}),
        });
    }
    // Reach: each fault family must really have fired (summed over file classes, so that
    // the requirement does not depend on what a particular seed's states rewrite).
    for fam in ["fault.crash@aw.data", "fault.crash@aw.rename", "fault.crash@info.data", "fault.damage:manifest", "fault.damage:fragment-blob", "fault.damage:info.toml"] {
        let n: u64 = probes.0.iter().filter(|(k, _)| k.starts_with(fam)).map(|(_, v)| *v).sum();
        if n == 0 {
            rep.harness_error(&format!("reach probe {fam}* stayed at zero"));
        }
    }
    let wall = start.elapsed().as_secs_f64();
    let mut extra = serde_json::Map::new();
    extra.insert("commands_executed".into(), json!(cmds));
    extra.insert("faults_fired_and_probes".into(), probes.to_json());
    extra.insert("states_explored".into(), json!(n_states));
    extra.insert("distinct_durable_states".into(), json!(states.len()));
    extra.insert("simulated_time_ms".into(), json!(sim_ms));
    extra.insert("runs_per_hour".into(), json!((evals as f64 / wall * 3600.0) as u64));
    extra.insert("known_finding_hits".into(), json!(rep.known_hits));
    extra.insert("io_errors".into(), json!("injected as a separate observational configuration: counted under io_observation.*, never reported (I/O errors are outside the property's fault model)"));
    extra.insert("components".into(), json!({"real": ["veryl CLI binary from the working tree", "filesystem", "kernel flock", "real process death (_exit at the gate; temp files stay, locks released by the kernel)"], "simulated": ["clock", "RandomState keys", "the crash point / torn prefix / errno / damaged byte"]}));
    Evidence {
        property_id: "C05".into(),
        tier: tier.into(),
        seed,
        level: "fault_enumeration".into(),
        evaluations: evals,
        distinct_nontrivial: distinct.len() as u64,
        rule: "for each explored state (seeded project + history ending in a build, + an edit, + pending build/check/test): EVERY gate of the pending command is a crash point (every .data gate additionally torn at prefix 0,1,len/2,len-1); per state: delete and garbage for EVERY file under .build plus a seeded sample of {truncate at 0/1/7/8/len/2/len-1, 24 bit flips, swap with another file}; then optional edit + build/check, each compared with a pristine clean run. distinct_nontrivial = distinct fault cases in which the fault really fired".into(),
        samples,
        extra,
        assumptions: vec![
            "crash = process death at a gate of the repository's own I/O helpers; bytes already written stay, no fsync/power-loss reordering".into(),
            "damage is applied between commands, never while a command runs".into(),
        ],
        wall_s: wall,
        violations: rep.violations,
    }
    .write();
    println!("C05: cases={evals} commands={cmds} distinct={} violations={} known={} wall={wall:.1}s", distinct.len(), rep.violations, rep.known_hits);
    rep.exit
}

fn run_plain(sc: &C05Scenario) -> Option<Outcome> {
    let mut memo = RefMemo::new();
    let mut probes = Counters::default();
    let (mut cmds, mut sim_ms) = (0, 0);
    let mut states = BTreeSet::new();
    let mut ctx = RunCtx { memo: &mut memo, probes: &mut probes, cmds: &mut cmds, sim_ms: &mut sim_ms, states: &mut states };
    run(sc, &mut ctx).ok()
}

/// Drops prefix steps and after-steps while the same class persists. Crash
/// gate numbers refer to the pending command, whose gate list depends on the
/// prefix, so each candidate keeps the gate *kind* by search.
fn minimise(sc: &C05Scenario, class: &str) -> C05Scenario {
    let mut best = sc.clone();
    let same = |c: &C05Scenario| run_plain(c).and_then(|o| o.violation).is_some_and(|v| v.class == class);
    let mut budget = 40;
    let mut i = 0;
    while i < best.after.len() && budget > 0 {
        if best.after.len() == 1 {
            break;
        }
        let mut cand = best.clone();
        cand.after.remove(i);
        budget -= 1;
        if same(&cand) {
            best = cand;
        } else {
            i += 1;
        }
    }
    if matches!(best.fault, Fault::Damage { .. }) {
        let mut i = 1;
        while i < best.base.steps.len() && budget > 0 {
            let mut cand = best.clone();
            cand.base.steps.remove(i);
            budget -= 1;
            if same(&cand) {
                best = cand;
            } else {
                i += 1;
            }
        }
    }
    best
}

pub fn replay(path: &str) -> i32 {
    let text = std::fs::read_to_string(path).expect("read replay");
    let v: serde_json::Value = serde_json::from_str(&text).expect("parse replay");
    let sc: C05Scenario = serde_json::from_value(v["scenario"].clone()).expect("scenario");
    match run_plain(&sc) {
        None => {
            eprintln!("harness error during replay");
            2
        }
        Some(o) => Reporter::replay_result("C05", path, o.violation.map(|v| (v.class, format!("step {}: {}", v.step, v.detail)))),
    }
}
