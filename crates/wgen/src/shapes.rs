//! The shape library. Variant 0 of every slot is clean; later variants change
//! what *other* files see (widths, ports, members, arity) or add warnings,
//! errors and syntax errors.

use crate::{Slot, Unit};

pub fn units() -> Vec<Unit> {
    vec![
        Unit {
            name: "pkg_width",
            toggles: vec![(1, 2, 1)],
            has_tests: false,
            slots: vec![
                Slot {
                    path: "src/pkg_a.veryl",
                    variants: vec![
                        "package PkgA {\n    const WIDTH: u32 = 8;\n    const DEPTH: u32 = 4;\n}\n",
                        "package PkgA {\n    const WIDTH: u32 = 16;\n    const DEPTH: u32 = 4;\n}\n",
                        "package PkgA {\n    const WIDTH: u32 = 4;\n    const DEPTH: u32 = 2;\n    const EXTRA: u32 = 1;\n}\n",
                        "package PkgA {\n    const DEPTH: u32 = 4;\n}\n",
                    ],
                },
                Slot {
                    path: "src/mod_b.veryl",
                    variants: vec![
                        "module ModB (\n    o_dat: output logic<PkgA::WIDTH>,\n) {\n    assign o_dat = 0;\n}\n",
                        "module ModB (\n    o_dat: output logic<PkgA::WIDTH>,\n) {\n    assign o_dat = 1;\n}\n",
                        "module ModB (\n    o_dat: output logic<PkgA::WIDTH>,\n    o_bit: output logic,\n) {\n    var arr: logic<PkgA::WIDTH>;\n    assign arr   = 0;\n    assign o_dat = arr;\n    assign o_bit = arr[6];\n}\n",
                        "module ModB (\n    o_dat: output logic<PkgA::WIDTH>,\n) {\n    let unused_b: logic = 1;\n    assign o_dat = 0;\n}\n",
                    ],
                },
                Slot {
                    path: "src/mod_c.veryl",
                    variants: vec![
                        "module ModC (\n    o_dat: output logic<PkgA::WIDTH>,\n) {\n    inst u_b: ModB (\n        o_dat: o_dat,\n    );\n}\n",
                        "module ModC (\n    o_dat: output logic<PkgA::DEPTH>,\n) {\n    assign o_dat = 0;\n}\n",
                    ],
                },
            ],
        },
        Unit {
            name: "ports",
            toggles: vec![(0, 1, 3)],
            has_tests: false,
            slots: vec![
                Slot {
                    path: "src/sub.veryl",
                    variants: vec![
                        "module Sub (\n    i_a: input  logic,\n    o_y: output logic,\n) {\n    assign o_y = i_a;\n}\n",
                        "module Sub (\n    i_a: input  logic,\n    i_b: input  logic,\n    o_y: output logic,\n) {\n    assign o_y = i_a & i_b;\n}\n",
                        "module Sub (\n    i_a: input  logic,\n    o_z: output logic,\n) {\n    assign o_z = ~i_a;\n}\n",
                        "module Sub (\n    i_a: input  logic,\n    o_y: output logic,\n) {\n    assign o_y = ~i_a;\n}\n",
                    ],
                },
                Slot {
                    path: "src/top.veryl",
                    variants: vec![
                        "module Top (\n    i_a: input  logic,\n    o_y: output logic,\n) {\n    inst u_sub: Sub (\n        i_a,\n        o_y,\n    );\n}\n",
                        "module Top (\n    i_a: input  logic,\n    o_y: output logic,\n) {\n    inst u_sub: Sub (\n        i_a: i_a,\n        o_y: o_y,\n    );\n}\n",
                        "module Top (\n    i_a: input  logic,\n    o_y: output logic,\n) {\n    var w: logic;\n    inst u_sub0: Sub (\n        i_a: i_a,\n        o_y: w  ,\n    );\n    inst u_sub1: Sub (\n        i_a: w  ,\n        o_y: o_y,\n    );\n}\n",
                        "module Top (\n    i_a: input  logic,\n    o_y: output logic,\n) {\n    assign o_y = i_a;\n}\n",
                    ],
                },
            ],
        },
        Unit {
            name: "types",
            toggles: vec![(0, 1, 3)],
            has_tests: false,
            slots: vec![
                Slot {
                    path: "src/types.veryl",
                    variants: vec![
                        "package Types {\n    enum Color: logic<2> {\n        red,\n        green,\n        blue,\n    }\n    struct Pix {\n        c: Color   ,\n        v: logic<4>,\n    }\n}\n",
                        "package Types {\n    enum Color: logic<3> {\n        red,\n        green,\n        blue,\n        alpha,\n    }\n    struct Pix {\n        c: Color   ,\n        v: logic<4>,\n    }\n}\n",
                        "package Types {\n    enum Color: logic<2> {\n        red,\n        green,\n    }\n    struct Pix {\n        c: Color   ,\n        v: logic<8>,\n    }\n}\n",
                        "package Types {\n    enum Color: logic<2> {\n        red,\n        green,\n        blue,\n    }\n    struct Pix {\n        c: Color   ,\n        w: logic<4>,\n    }\n}\n",
                    ],
                },
                Slot {
                    path: "src/use_types.veryl",
                    variants: vec![
                        "module UseTypes (\n    o: output Types::Pix,\n) {\n    always_comb {\n        o.c = Types::Color::blue;\n        o.v = 0;\n    }\n}\n",
                        "module UseTypes (\n    o: output Types::Pix,\n) {\n    always_comb {\n        o.c = Types::Color::red;\n        o.v = 3;\n    }\n}\n",
                        "import Types::*;\nmodule UseTypes (\n    o: output Pix,\n) {\n    always_comb {\n        o.c = Color::green;\n        o.v = 1;\n    }\n}\n",
                        "module UseTypes (\n    o: output logic<6>,\n) {\n    assign o = 0;\n}\n",
                    ],
                },
            ],
        },
        Unit {
            name: "generic",
            toggles: vec![(0, 2, 2)],
            has_tests: false,
            slots: vec![
                Slot {
                    path: "src/gen_m.veryl",
                    variants: vec![
                        "module GenM::<W: u32> (\n    o: output logic<W>,\n) {\n    assign o = 0;\n}\n",
                        "module GenM::<W: u32> (\n    o: output logic<W>,\n) {\n    assign o = '1;\n}\n",
                        "module GenM::<W: u32, V: u32 = 1> (\n    o: output logic<W>,\n) {\n    assign o = V;\n}\n",
                    ],
                },
                Slot {
                    path: "src/use_gen.veryl",
                    variants: vec![
                        "module UseGen (\n    o1: output logic<4>,\n    o2: output logic<8>,\n) {\n    inst u1: GenM::<4> (\n        o: o1,\n    );\n    inst u2: GenM::<8> (\n        o: o2,\n    );\n}\n",
                        "module UseGen (\n    o1: output logic<4>,\n    o2: output logic<8>,\n) {\n    inst u1: GenM::<4> (\n        o: o1,\n    );\n    assign o2 = 0;\n}\n",
                    ],
                },
                Slot {
                    path: "src/a_gen_user.veryl",
                    variants: vec![
                        "module AGenUser (\n    o: output logic<4>,\n) {\n    inst u: GenM::<4> (\n        o: o,\n    );\n}\n",
                        "module AGenUser (\n    o: output logic<16>,\n) {\n    inst u: GenM::<16> (\n        o: o,\n    );\n}\n",
                        "module AGenUser (\n    o: output logic<4>,\n) {\n    assign o = 0;\n}\n",
                    ],
                },
            ],
        },
        Unit {
            name: "iface",
            toggles: vec![(0, 1, 3)],
            has_tests: false,
            slots: vec![
                Slot {
                    path: "src/bus_if.veryl",
                    variants: vec![
                        "interface BusIf {\n    var valid: logic   ;\n    var data : logic<8>;\n    modport master {\n        valid: output,\n        data : output,\n    }\n    modport slave {\n        valid: input,\n        data : input,\n    }\n}\n",
                        "interface BusIf {\n    var valid: logic    ;\n    var data : logic<16>;\n    modport master {\n        valid: output,\n        data : output,\n    }\n    modport slave {\n        valid: input,\n        data : input,\n    }\n}\n",
                        "interface BusIf {\n    var valid: logic   ;\n    var data : logic<8>;\n    modport master {\n        valid: output,\n        data : output,\n    }\n}\n",
                    ],
                },
                Slot {
                    path: "src/bus_user.veryl",
                    variants: vec![
                        "module BusUser (\n    bus: modport BusIf::master,\n) {\n    assign bus.valid = 1;\n    assign bus.data  = 0;\n}\n",
                        "module BusUser (\n    bus: modport BusIf::master,\n) {\n    assign bus.valid = 0;\n    assign bus.data  = 5;\n}\n",
                        "module BusUser (\n    bus: modport BusIf::slave,\n    o  : output  logic<8>    ,\n) {\n    assign o = if bus.valid ? bus.data : 0;\n}\n",
                        "module BusUser (\n    o: output logic<8>,\n) {\n    assign o = 0;\n}\n",
                    ],
                },
            ],
        },
        Unit {
            name: "func",
            toggles: vec![(0, 1, 2)],
            has_tests: false,
            slots: vec![
                Slot {
                    path: "src/f_pkg.veryl",
                    variants: vec![
                        "package FPkg {\n    function inc (\n        x: input logic<8>,\n    ) -> logic<8> {\n        return x + 1;\n    }\n}\n",
                        "package FPkg {\n    function inc (\n        x: input logic<8>,\n    ) -> logic<8> {\n        return x + 2;\n    }\n}\n",
                        "package FPkg {\n    function inc (\n        x: input logic<8>,\n        y: input logic<8>,\n    ) -> logic<8> {\n        return x + y;\n    }\n}\n",
                    ],
                },
                Slot {
                    path: "src/f_use.veryl",
                    variants: vec![
                        "module FUse (\n    i: input  logic<8>,\n    o: output logic<8>,\n) {\n    assign o = FPkg::inc(i);\n}\n",
                        "module FUse (\n    i: input  logic<8>,\n    o: output logic<8>,\n) {\n    assign o = FPkg::inc(FPkg::inc(i));\n}\n",
                        "module FUse (\n    i: input  logic<8>,\n    o: output logic<8>,\n) {\n    assign o = i;\n}\n",
                    ],
                },
            ],
        },
        Unit {
            name: "svmember",
            toggles: vec![],
            has_tests: false,
            slots: vec![
                Slot {
                    path: "src/sv_a.veryl",
                    variants: vec![
                        "module SvUserA {\n    inst u_if: $sv::foo_if;\n}\n",
                        "module SvUserA {\n    inst u_if: $sv::bar_if;\n}\n",
                    ],
                },
                Slot {
                    path: "src/sv_b.veryl",
                    variants: vec![
                        "module SvUserB {\n    inst u_if: $sv::foo_if;\n}\n",
                        "module SvUserB {\n    inst u_if : $sv::foo_if;\n    inst u_if2: $sv::bar_if;\n}\n",
                        "module SvUserB {\n    inst u_if2: $sv::bar_if;\n}\n",
                    ],
                },
                Slot {
                    path: "src/sv_c.veryl",
                    variants: vec![
                        "module SvUserC {\n    inst u_if : $sv::foo_if;\n    inst u_if3: $sv::baz_if;\n}\n",
                        "module SvUserC {\n    inst u_if: $sv::bar_if;\n}\n",
                    ],
                },
            ],
        },
        Unit {
            name: "diag",
            toggles: vec![],
            has_tests: false,
            slots: vec![Slot {
                path: "src/diag.veryl",
                variants: vec![
                    "module Diag (\n    o_dat: output logic,\n) {\n    assign o_dat = 0;\n}\n",
                    "module Diag (\n    o_dat: output logic,\n) {\n    let unused_var: logic = 1;\n    assign o_dat = 0;\n}\n",
                    "module Diag (\n    o_dat: output logic,\n) {\n    let broken: logic = undefined_signal;\n    assign o_dat = broken;\n}\n",
                    "module Diag (\n    o_dat: output logic,\n) {\n    assign o_dat = ;\n}\n",
                    "module diag_bad_name (\n    o_dat: output logic,\n) {\n    assign o_dat = 0;\n}\n",
                ],
            }],
        },
        Unit {
            name: "pathdep",
            toggles: vec![(0, 1, 1)],
            has_tests: false,
            slots: vec![
                Slot {
                    path: "../dep_a/src/dep_mod.veryl",
                    variants: vec![
                        "pub module DepMod (\n    i_a: input  logic<4>,\n    o_y: output logic<4>,\n) {\n    assign o_y = i_a + 1;\n}\npub package DepPkg {\n    const DW: u32 = 4;\n}\n",
                        "pub module DepMod (\n    i_a: input  logic<4>,\n    o_y: output logic<4>,\n) {\n    assign o_y = i_a + 2;\n}\npub package DepPkg {\n    const DW: u32 = 4;\n}\n",
                        "pub module DepMod (\n    i_a: input  logic<4>,\n    i_b: input  logic<4>,\n    o_y: output logic<4>,\n) {\n    assign o_y = i_a + i_b;\n}\npub package DepPkg {\n    const DW: u32 = 4;\n}\n",
                        "pub module DepMod (\n    i_a: input  logic<4>,\n    o_y: output logic<4>,\n) {\n    assign o_y = i_a + 1;\n}\npub package DepPkg {\n    const DW: u32 = 6;\n}\n",
                    ],
                },
                Slot {
                    path: "src/use_dep.veryl",
                    variants: vec![
                        "module UseDep (\n    i_a: input  logic<dep_a::DepPkg::DW>,\n    o_y: output logic<dep_a::DepPkg::DW>,\n) {\n    inst u: dep_a::DepMod (\n        i_a: i_a,\n        o_y: o_y,\n    );\n}\n",
                        "module UseDep (\n    i_a: input  logic<4>,\n    o_y: output logic<4>,\n) {\n    assign o_y = i_a;\n}\n",
                    ],
                },
            ],
        },
        Unit {
            name: "examples",
            toggles: vec![(0, 1, 2)],
            has_tests: false,
            slots: vec![
                Slot {
                    path: "src/ex_lib.veryl",
                    variants: vec![
                        "module ExLib (\n    i_a: input  logic<3>,\n    o_y: output logic<3>,\n) {\n    assign o_y = ~i_a;\n}\n",
                        "module ExLib (\n    i_a: input  logic<3>,\n    i_en: input logic,\n    o_y: output logic<3>,\n) {\n    assign o_y = if i_en ? ~i_a : i_a;\n}\n",
                    ],
                },
                Slot {
                    path: "examples/ex_top.veryl",
                    variants: vec![
                        "module ExTop (\n    i_a: input  logic<3>,\n    o_y: output logic<3>,\n) {\n    inst u: ExLib (\n        i_a: i_a,\n        o_y: o_y,\n    );\n}\n",
                        "module ExTop (\n    i_a: input  logic<3>,\n    o_y: output logic<3>,\n) {\n    let unused_ex: logic = 0;\n    inst u: ExLib (\n        i_a: i_a,\n        o_y: o_y,\n    );\n}\n",
                        "module ExTop (\n    i_a: input  logic<3>,\n    o_y: output logic<3>,\n) {\n    assign o_y = i_a;\n}\n",
                    ],
                },
            ],
        },
        Unit {
            name: "attrs",
            toggles: vec![],
            has_tests: false,
            slots: vec![
                Slot {
                    path: "src/attr_m.veryl",
                    variants: vec![
                        "module AttrM (\n    i: input  logic,\n    o: output logic,\n) {\n    #[allow(unused_variable)]\n    let tmp: logic = i;\n    assign o = i;\n}\n",
                        "module AttrM (\n    i: input  logic,\n    o: output logic,\n) {\n    // no attribute here\n    let tmp: logic = i;\n    assign o = i;\n}\n",
                        "module AttrM (\n    i: input  logic,\n    o: output logic,\n) {\n    let tmp: logic = i;\n    #[allow(unused_variable)]\n    let tmp2: logic = i;\n    assign o = i;\n}\n",
                        "module AttrM (\n    i: input  logic,\n    o: output logic,\n) {\n    #[allow(unused_variable)]\n    let tmp: logic = i;\n    let tmp3: logic = i;\n    assign o = tmp3;\n}\n",
                    ],
                },
                Slot {
                    path: "src/cdc_m.veryl",
                    variants: vec![
                        "module CdcM (\n    i_clk_a: input  'a clock,\n    i_dat_a: input  'a logic,\n    i_clk_b: input  'b clock,\n    o_dat_b: output 'b logic,\n) {\n    unsafe (cdc) {\n        assign o_dat_b = i_dat_a;\n    }\n}\n",
                        "module CdcM (\n    i_clk_a: input  'a clock,\n    i_dat_a: input  'a logic,\n    i_clk_b: input  'b clock,\n    o_dat_b: output 'b logic,\n) {\n    // crossing\n    assign o_dat_b = i_dat_a;\n    // end\n}\n",
                        "module CdcM (\n    i_clk_a: input  'a clock,\n    i_dat_a: input  'a logic,\n    i_clk_b: input  'b clock,\n    o_dat_b: output 'b logic,\n) {\n    var w: 'b logic;\n    unsafe (cdc) {\n        assign w = i_dat_a;\n    }\n    assign o_dat_b = w;\n}\n",
                    ],
                },
            ],
        },
        Unit {
            name: "mixin",
            toggles: vec![(0, 1, 2)],
            has_tests: false,
            slots: vec![
                Slot {
                    path: "src/a_src_if.veryl",
                    variants: vec![
                        "interface SrcIf {\n    var x: logic;\n    modport mp_x {\n        x: input,\n    }\n}\n",
                        "interface SrcIf {\n    var x : logic;\n    var x2: logic;\n    modport mp_x {\n        x : input,\n        x2: input,\n    }\n}\n",
                    ],
                },
                Slot {
                    path: "src/m_host_if.veryl",
                    variants: vec![
                        "interface HostIf {\n    mixin SrcIf;\n    var y: logic;\n    modport mp {\n        ..input\n    }\n}\nmodule HostUser (\n    p: modport HostIf::mp,\n    o: output logic         ,\n) {\n    assign o = p.x & p.y;\n}\n",
                        "interface HostIf {\n    mixin SrcIf;\n    var y: logic;\n    modport mp {\n        x: input,\n        y: input,\n    }\n}\nmodule HostUser (\n    p: modport HostIf::mp,\n    o: output logic         ,\n) {\n    assign o = p.x & p.y;\n}\n",
                        "interface HostIf {\n    var y: logic;\n    modport mp {\n        ..input\n    }\n}\nmodule HostUser (\n    p: modport HostIf::mp,\n    o: output logic         ,\n) {\n    assign o = p.y;\n}\n",
                    ],
                },
            ],
        },
        Unit {
            name: "ifdef",
            toggles: vec![],
            has_tests: false,
            slots: vec![Slot {
                path: "src/ifdef_m.veryl",
                variants: vec![
                    "module IfdefM (\n    i: input  logic,\n    o: output logic,\n) {\n    #[ifdef(DEF_A)]\n    assign o = i;\n    #[else]\n    assign o = ~i;\n}\n",
                    "module IfdefM (\n    i: input  logic,\n    o: output logic,\n) {\n    #[ifndef(DEF_A)]\n    assign o = i;\n    #[else]\n    assign o = ~i;\n}\n",
                    "module IfdefM (\n    i: input  logic,\n    o: output logic,\n) {\n    #[ifdef(DEF_A)]\n    let unused_a: logic = i;\n    assign o = i;\n}\n",
                    "module IfdefM (\n    i: input  logic,\n    o: output logic,\n) {\n    assign o = i;\n}\n",
                ],
            }],
        },
        Unit {
            // a dependency chain across three files: ChC does not mention ChA
            name: "chain",
            toggles: vec![(0, 1, 2)],
            has_tests: false,
            slots: vec![
                Slot {
                    path: "src/ch_pkg_a.veryl",
                    variants: vec![
                        "package ChA {\n    const W: u32 = 4;\n}\n",
                        "package ChA {\n    const W: u32 = 8;\n}\n",
                        "package ChA {\n    const W: u32 = 3;\n}\n",
                    ],
                },
                Slot {
                    path: "src/ch_pkg_b.veryl",
                    variants: vec![
                        "package ChB {\n    const IDX: u32 = ChA::W - 1;\n}\n",
                        "package ChB {\n    const IDX: u32 = ChA::W - 2;\n}\n",
                        "package ChB {\n    const IDX: u32 = 2;\n}\n",
                    ],
                },
                Slot {
                    path: "src/ch_mod_c.veryl",
                    variants: vec![
                        "module ChC (\n    i: input  logic<4>,\n    o: output logic   ,\n) {\n    assign o = i[ChB::IDX];\n}\n",
                        "module ChC (\n    i: input  logic<4>,\n    o: output logic   ,\n) {\n    assign o = i[0];\n}\n",
                    ],
                },
            ],
        },
        Unit {
            // formatter attributes: what `fmt` does depends on the attribute table
            name: "fmtattr",
            toggles: vec![],
            has_tests: false,
            slots: vec![
                Slot {
                    path: "src/fmt_a.veryl",
                    variants: vec![
                        "module FmtA {\n    let _a : logic = 0;\n    let _bb: logic = 1;\n}\n",
                        "#[fmt(skip)]\nmodule FmtA {\n  let   _a : logic   = 0;\n  let   _bb: logic   = 1;\n}\n",
                        "module FmtA {\n    var _y: logic;\n    #[fmt(compact)]\n    inst u0: FmtSub #(\n        A: 1,\n        B: 2,\n    ) (\n        x: 1 ,\n        y: _y,\n    );\n}\n",
                        "module FmtA {\n    var _y: logic;\n    inst u0: FmtSub #(\n        A: 1,\n        B: 2,\n    ) (\n        x: 1 ,\n        y: _y,\n    );\n}\n",
                    ],
                },
                Slot {
                    path: "src/fmt_sub.veryl",
                    variants: vec![
                        "module FmtSub #(\n    param A: u32 = 1,\n    param B: u32 = 1,\n) (\n    x: input  logic,\n    y: output logic,\n) {\n    assign y = x;\n}\n",
                        "module FmtSub #(\n    param A: u32 = 1,\n    param B: u32 = 2,\n) (\n    x: input  logic,\n    y: output logic,\n) {\n    #[fmt(skip)]\n    assign   y   =   x;\n}\n",
                    ],
                },
            ],
        },
        Unit {
            name: "tests",
            toggles: vec![],
            has_tests: true,
            slots: vec![
                Slot {
                    path: "src/counter.veryl",
                    variants: vec![
                        "module Counter (\n    clk: input  clock    ,\n    rst: input  reset    ,\n    cnt: output logic<32>,\n) {\n    always_ff {\n        if_reset {\n            cnt = 0;\n        } else {\n            cnt += 1;\n        }\n    }\n}\n",
                        "module Counter (\n    clk: input  clock    ,\n    rst: input  reset    ,\n    cnt: output logic<32>,\n) {\n    always_ff {\n        if_reset {\n            cnt = 0;\n        } else {\n            cnt += 2;\n        }\n    }\n}\n",
                    ],
                },
                Slot {
                    path: "src/tb_counter.veryl",
                    variants: vec![
                        "#[test(test_counter)]\nmodule test_counter {\n    inst clk: $tb::clock_gen;\n    inst rst: $tb::reset_gen (clk);\n\n    var cnt: logic<32>;\n\n    inst dut: Counter (\n        clk: clk,\n        rst: rst,\n        cnt: cnt,\n    );\n\n    initial {\n        rst.assert();\n        clk.next(10);\n        $display(\"cnt=%d\", cnt);\n        $assert(cnt == 32'd10);\n        $finish();\n    }\n}\n",
                        "#[test(test_counter)]\nmodule test_counter {\n    inst clk: $tb::clock_gen;\n    inst rst: $tb::reset_gen (clk);\n\n    var cnt: logic<32>;\n\n    inst dut: Counter (\n        clk: clk,\n        rst: rst,\n        cnt: cnt,\n    );\n\n    initial {\n        rst.assert();\n        clk.next(5);\n        $display(\"cnt=%d\", cnt);\n        $assert(cnt == 32'd5);\n        $finish();\n    }\n}\n",
                    ],
                },
                Slot {
                    path: "src/tb_other.veryl",
                    variants: vec![
                        "#[test(test_other)]\nmodule test_other {\n    initial {\n        $display(\"other\");\n        $finish();\n    }\n}\n",
                        "#[test(test_other)]\nmodule test_other {\n    initial {\n        $display(\"other2\");\n        $assert(0);\n        $finish();\n    }\n}\n",
                    ],
                },
            ],
        },
    ]
}
