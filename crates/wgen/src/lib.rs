//! Workload generation: a small shape library of Veryl files with content
//! variants chosen so that a change in one file changes the diagnostics or the
//! emitted text of *another* file, plus seeded edit histories over them.

use serde::{Deserialize, Serialize};
use simcore::rng::Rng;
use std::collections::BTreeMap;

pub mod shapes;

#[derive(Clone, Debug, Serialize, Deserialize, PartialEq, Eq, Hash)]
pub struct TomlOpts {
    /// "directory" | "source" | "bundle"
    pub target: String,
    /// "target" | "none" | "directory"
    pub sourcemap: String,
    /// "absolute" | "relative" | "flgen"
    pub filelist: String,
    pub exclude_std: bool,
    pub incremental: bool,
    /// extra `[build]` lines, e.g. `implicit_parameter_types = ["string"]`
    pub extra_build: Vec<String>,
    /// path dependencies: (name, relative path)
    pub deps: Vec<(String, String)>,
    /// git dependencies: (name, url, version requirement)
    #[serde(default)]
    pub git_deps: Vec<(String, String, String)>,
    /// `[test] defines`
    #[serde(default)]
    pub test_defines: Vec<String>,
}

impl Default for TomlOpts {
    fn default() -> Self {
        TomlOpts {
            target: "directory".into(),
            sourcemap: "target".into(),
            filelist: "absolute".into(),
            exclude_std: true,
            incremental: true,
            extra_build: vec![],
            deps: vec![],
            git_deps: vec![],
            test_defines: vec![],
        }
    }
}

impl TomlOpts {
    pub fn render(&self, name: &str) -> String {
        let target = match self.target.as_str() {
            "source" => "{type = \"source\"}".to_string(),
            "bundle" => "{type = \"bundle\", path = \"target/bundle.sv\"}".to_string(),
            _ => "{type = \"directory\", path = \"target\"}".to_string(),
        };
        let sourcemap = match self.sourcemap.as_str() {
            "none" => "{type = \"none\"}".to_string(),
            "directory" => "{type = \"directory\", path = \"maps\"}".to_string(),
            _ => "{type = \"target\"}".to_string(),
        };
        let mut s = format!(
            "[project]\nname = \"{name}\"\nversion = \"0.1.0\"\n\n[build]\nclock_type = \"posedge\"\nreset_type = \"async_low\"\nsources = [\"src\"]\ntarget = {target}\nsourcemap_target = {sourcemap}\nfilelist_type = \"{}\"\nexclude_std = {}\nincremental = {}\n",
            self.filelist, self.exclude_std, self.incremental
        );
        for l in &self.extra_build {
            s.push_str(l);
            s.push('\n');
        }
        if !self.test_defines.is_empty() {
            s.push_str(&format!("\n[test]\ndefines = [{}]\n", self.test_defines.iter().map(|d| format!("\"{d}\"")).collect::<Vec<_>>().join(", ")));
        }
        if !self.deps.is_empty() || !self.git_deps.is_empty() {
            s.push_str("\n[dependencies]\n");
            for (n, p) in &self.deps {
                s.push_str(&format!("{n} = {{path = \"{p}\"}}\n"));
            }
            for (n, u, r) in &self.git_deps {
                s.push_str(&format!("{n} = {{git = \"{u}\", version = \"{r}\"}}\n"));
            }
        }
        s
    }
}

/// A project: relative path -> content, plus Veryl.toml options.
#[derive(Clone, Debug, Serialize, Deserialize, PartialEq)]
pub struct Project {
    pub name: String,
    pub files: BTreeMap<String, String>,
    pub toml: TomlOpts,
}

#[derive(Clone, Debug, Serialize, Deserialize, PartialEq)]
pub enum Step {
    Write { path: String, content: String },
    Delete { path: String },
    Rename { from: String, to: String },
    Touch { path: String },
    SetToml { toml: TomlOpts },
    /// Delete an output file (relative to the project root), if present.
    DeleteOutput { path: String },
    /// Hand-edit an output file: append a comment line.
    EditOutput { path: String },
    Cmd { args: Vec<String> },
}

/// One file slot of a unit with its content variants.
#[derive(Clone, Debug)]
pub struct Slot {
    pub path: &'static str,
    pub variants: Vec<&'static str>,
}

#[derive(Clone, Debug)]
pub struct Unit {
    /// (definition slot, user slot, variant of the user that does not mention the definition);
    /// variant 0 of the user does mention it.
    pub toggles: Vec<(usize, usize, usize)>,
    pub name: &'static str,
    pub slots: Vec<Slot>,
    /// Variant 0 of every slot is error- and warning-free.
    pub has_tests: bool,
}

pub struct Generated {
    pub project: Project,
    pub units: Vec<Unit>,
}

/// Picks 1–3 units; every slot starts at a seeded variant (biased to 0).
pub fn gen_project(rng: &mut Rng, clean_only: bool, with_tests: bool) -> Generated {
    let all = shapes::units();
    let mut idx: Vec<usize> = (0..all.len()).collect();
    rng.shuffle(&mut idx);
    let n = 1 + rng.below(3);
    let mut units = vec![];
    for i in idx {
        if units.len() >= n {
            break;
        }
        if all[i].has_tests && !with_tests {
            continue;
        }
        units.push(all[i].clone());
    }
    if with_tests && !units.iter().any(|u| u.has_tests) {
        units.push(all.iter().find(|u| u.has_tests).unwrap().clone());
    }
    let mut files = BTreeMap::new();
    for u in &units {
        for s in &u.slots {
            let v = if clean_only || rng.chance(3, 4) { 0 } else { rng.below(s.variants.len()) };
            files.insert(s.path.to_string(), s.variants[v].to_string());
        }
    }
    let mut toml = TomlOpts::default();
    if units.iter().any(|u| u.name == "pathdep") {
        files.insert(
            "../dep_a/Veryl.toml".to_string(),
            "[project]\nname = \"dep_a\"\nversion = \"0.1.0\"\n\n[build]\nclock_type = \"posedge\"\nreset_type = \"async_low\"\nsources = [\"src\"]\ntarget = {type = \"directory\", path = \"target\"}\nexclude_std = true\n".to_string(),
        );
        toml.deps.push(("dep_a".to_string(), "../dep_a".to_string()));
    }
    if rng.chance(1, 4) {
        toml.target = rng.pick(&["source", "bundle"]).to_string();
    }
    if rng.chance(1, 3) {
        toml.sourcemap = rng.pick(&["none", "directory"]).to_string();
    }
    if rng.chance(1, 3) {
        toml.filelist = rng.pick(&["relative", "flgen"]).to_string();
    }
    Generated {
        project: Project {
            name: "prj".into(),
            files,
            toml,
        },
        units,
    }
}

/// A seeded edit/command history over the project's units.
pub fn gen_history(rng: &mut Rng, g: &Generated, len: usize, cmds: &[&[&str]]) -> Vec<Step> {
    let mut steps = vec![];
    let mut files = g.project.files.clone();
    let slots: Vec<&Slot> = g.units.iter().flat_map(|u| u.slots.iter()).collect();
    let cmd = |rng: &mut Rng| Step::Cmd {
        args: rng.pick(cmds).iter().map(|s| s.to_string()).collect(),
    };
    steps.push(cmd(rng));
    // Template "a dependency appears, then its target changes" (1 in 2 when the project has a
    // unit that supports it): a user file that does not mention the definition yet is built,
    // then starts to use it (the definition file is a cache hit in that build), then the
    // definition changes. Only building/checking commands are used inside the template.
    let togglable: Vec<&Unit> = g.units.iter().filter(|u| !u.toggles.is_empty()).collect();
    if !togglable.is_empty() && rng.chance(1, 2) {
        let u = *rng.pick(&togglable);
        let (d, us, nv) = *rng.pick(&u.toggles);
        let (def, user) = (&u.slots[d], &u.slots[us]);
        let bc = |rng: &mut Rng| Step::Cmd { args: vec![if rng.chance(1, 2) { "build".to_string() } else { "check".to_string() }] };
        if files.contains_key(def.path) && files.contains_key(user.path) {
            let noref = user.variants[nv].to_string();
            files.insert(user.path.to_string(), noref.clone());
            steps.push(Step::Write { path: user.path.to_string(), content: noref });
            steps.push(bc(rng));
            let with_ref = user.variants[0].to_string();
            files.insert(user.path.to_string(), with_ref.clone());
            steps.push(Step::Write { path: user.path.to_string(), content: with_ref });
            steps.push(bc(rng));
            let v = 1 + rng.below(def.variants.len() - 1);
            let content = def.variants[v].to_string();
            files.insert(def.path.to_string(), content.clone());
            steps.push(Step::Write { path: def.path.to_string(), content });
            steps.push(Step::Cmd { args: vec!["check".to_string()] });
            steps.push(Step::Cmd { args: vec!["build".to_string()] });
        }
    }
    let mut toml = g.project.toml.clone();
    while steps.len() < len {
        let r = rng.below(100);
        let slot = *rng.pick(&slots);
        let step = match r {
            0..=34 => {
                let v = rng.below(slot.variants.len());
                let content = slot.variants[v].to_string();
                // the slot may live under a renamed path
                let path = current_path(&files, slot).unwrap_or(slot.path.to_string());
                files.insert(path.clone(), content.clone());
                Step::Write { path, content }
            }
            35..=41 => match current_path(&files, slot) {
                Some(path) => {
                    files.remove(&path);
                    Step::Delete { path }
                }
                None => continue,
            },
            42..=47 => match current_path(&files, slot) {
                Some(from) => {
                    let to = if from.ends_with("_r.veryl") {
                        slot.path.to_string()
                    } else {
                        from.replace(".veryl", "_r.veryl")
                    };
                    let c = files.remove(&from).unwrap();
                    files.insert(to.clone(), c);
                    Step::Rename { from, to }
                }
                None => continue,
            },
            48..=52 => match current_path(&files, slot) {
                Some(path) => Step::Touch { path },
                None => continue,
            },
            53..=57 => {
                let mut t = toml.clone();
                match rng.below(5) {
                    4 => {
                        if t.test_defines.is_empty() {
                            t.test_defines.push("DEF_A".into());
                        } else {
                            t.test_defines.clear();
                        }
                    }
                    0 => t.sourcemap = rng.pick(&["target", "none", "directory"]).to_string(),
                    1 => t.filelist = rng.pick(&["absolute", "relative", "flgen"]).to_string(),
                    2 => t.target = rng.pick(&["directory", "source", "bundle"]).to_string(),
                    _ => {
                        if t.extra_build.is_empty() {
                            t.extra_build.push("omit_project_prefix = true".into());
                        } else {
                            t.extra_build.clear();
                        }
                    }
                }
                if t == toml {
                    continue;
                }
                toml = t.clone();
                Step::SetToml { toml: t }
            }
            58..=62 => match current_path(&files, slot) {
                Some(path) => Step::DeleteOutput { path: output_of(&toml, &path) },
                None => continue,
            },
            63..=66 => match current_path(&files, slot) {
                Some(path) => Step::EditOutput { path: output_of(&toml, &path) },
                None => continue,
            },
            _ => cmd(rng),
        };
        steps.push(step);
    }
    if !matches!(steps.last(), Some(Step::Cmd { .. })) {
        steps.push(cmd(rng));
    }
    steps
}

fn current_path(files: &BTreeMap<String, String>, slot: &Slot) -> Option<String> {
    if files.contains_key(slot.path) {
        return Some(slot.path.to_string());
    }
    let r = slot.path.replace(".veryl", "_r.veryl");
    files.contains_key(&r).then_some(r)
}

/// Output (.sv) path, relative to the project root, of a source path.
pub fn output_of(toml: &TomlOpts, src: &str) -> String {
    if let Some(rest) = src.strip_prefix("../dep_a/src/") {
        // outputs of a path dependency are emitted under dependencies/<name>/
        return format!("dependencies/dep_a/src/{}.sv", rest.trim_end_matches(".veryl"));
    }
    let stem = src.trim_start_matches("src/").trim_end_matches(".veryl");
    match toml.target.as_str() {
        "source" => format!("src/{stem}.sv"),
        "bundle" => "target/bundle.sv".to_string(),
        _ => format!("target/{stem}.sv"),
    }
}
