//! One integer decides everything: SplitMix64 streams derived from VERIF_SEED.

#[derive(Clone, Debug)]
pub struct Rng {
    state: u64,
}

pub fn splitmix(mut z: u64) -> u64 {
    z = z.wrapping_add(0x9e3779b97f4a7c15);
    z = (z ^ (z >> 30)).wrapping_mul(0xbf58476d1ce4e5b9);
    z = (z ^ (z >> 27)).wrapping_mul(0x94d049bb133111eb);
    z ^ (z >> 31)
}

/// Seed of run `i` of property `tag` under the batch seed.
pub fn mix(seed: u64, tag: &str, i: u64) -> u64 {
    let mut h = splitmix(seed ^ 0x5851f42d4c957f2d);
    for b in tag.bytes() {
        h = splitmix(h ^ b as u64);
    }
    splitmix(h ^ i.wrapping_mul(0xd1342543de82ef95))
}

impl Rng {
    pub fn new(seed: u64) -> Rng {
        Rng {
            state: splitmix(seed),
        }
    }
    pub fn next_u64(&mut self) -> u64 {
        self.state = self.state.wrapping_add(0x9e3779b97f4a7c15);
        let mut z = self.state;
        z = (z ^ (z >> 30)).wrapping_mul(0xbf58476d1ce4e5b9);
        z = (z ^ (z >> 27)).wrapping_mul(0x94d049bb133111eb);
        z ^ (z >> 31)
    }
    /// Uniform in `0..n` (n > 0).
    pub fn below(&mut self, n: usize) -> usize {
        if n <= 1 {
            return 0;
        }
        (self.next_u64() % n as u64) as usize
    }
    pub fn range(&mut self, lo: u64, hi_incl: u64) -> u64 {
        lo + self.next_u64() % (hi_incl - lo + 1)
    }
    pub fn chance(&mut self, num: u64, den: u64) -> bool {
        self.next_u64() % den < num
    }
    pub fn pick<'a, T>(&mut self, xs: &'a [T]) -> &'a T {
        &xs[self.below(xs.len())]
    }
    pub fn shuffle<T>(&mut self, xs: &mut [T]) {
        for i in (1..xs.len()).rev() {
            let j = self.below(i + 1);
            xs.swap(i, j);
        }
    }
    pub fn fork(&mut self) -> Rng {
        Rng::new(self.next_u64())
    }
}

pub fn verif_seed() -> u64 {
    std::env::var("VERIF_SEED")
        .ok()
        .and_then(|x| x.parse::<u64>().ok())
        .unwrap_or(20260921)
}
