pub mod coord;
pub mod evidence;
pub mod fsutil;
pub mod pool;
pub mod rng;
