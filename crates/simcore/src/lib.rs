pub mod rng;
