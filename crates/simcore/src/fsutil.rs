//! Durable-state helpers: snapshots, copies, digests of directory trees.

use std::collections::BTreeMap;
use std::fs;
use std::path::{Path, PathBuf};
use std::time::{Duration, SystemTime};

pub fn walk(dir: &Path) -> Vec<PathBuf> {
    let mut out = Vec::new();
    let mut stack = vec![dir.to_path_buf()];
    while let Some(d) = stack.pop() {
        let Ok(rd) = fs::read_dir(&d) else { continue };
        let mut entries: Vec<_> = rd.flatten().map(|e| e.path()).collect();
        entries.sort();
        for p in entries {
            let Ok(md) = fs::symlink_metadata(&p) else { continue };
            if md.is_dir() {
                stack.push(p);
            } else {
                out.push(p);
            }
        }
    }
    out.sort();
    out
}

/// Relative path -> bytes for every regular file under `dir`.
pub fn snapshot(dir: &Path) -> BTreeMap<String, Vec<u8>> {
    let mut map = BTreeMap::new();
    for p in walk(dir) {
        if let (Ok(rel), Ok(data)) = (p.strip_prefix(dir), fs::read(&p)) {
            map.insert(rel.to_string_lossy().to_string(), data);
        }
    }
    map
}

pub fn ms_to_time(ms: u64) -> SystemTime {
    SystemTime::UNIX_EPOCH + Duration::from_millis(ms)
}

pub fn set_mtime(path: &Path, ms: u64) {
    if let Ok(f) = fs::OpenOptions::new().write(true).open(path) {
        let _ = f.set_modified(ms_to_time(ms));
    }
}

/// Recursive copy that preserves modification times of files.
pub fn copy_tree(src: &Path, dst: &Path) {
    let _ = fs::create_dir_all(dst);
    let Ok(rd) = fs::read_dir(src) else { return };
    for e in rd.flatten() {
        let p = e.path();
        let to = dst.join(e.file_name());
        let Ok(md) = fs::symlink_metadata(&p) else { continue };
        if md.is_dir() {
            copy_tree(&p, &to);
        } else if md.is_file() {
            if fs::copy(&p, &to).is_ok()
                && let Ok(m) = md.modified()
                && let Ok(f) = fs::OpenOptions::new().write(true).open(&to)
            {
                let _ = f.set_modified(m);
            }
        }
    }
}

pub fn write_file(path: &Path, data: &[u8]) {
    if let Some(p) = path.parent() {
        let _ = fs::create_dir_all(p);
    }
    fs::write(path, data).unwrap_or_else(|e| panic!("write {}: {e}", path.display()));
}

pub fn hash_hex(data: &[u8]) -> String {
    blake3::hash(data).to_hex()[..16].to_string()
}

pub fn hash_u64(data: &[u8]) -> u64 {
    let h = blake3::hash(data);
    u64::from_le_bytes(h.as_bytes()[..8].try_into().unwrap())
}

pub fn fnv(data: &[u8]) -> u64 {
    let mut h: u64 = 0xcbf29ce484222325;
    for b in data {
        h ^= *b as u64;
        h = h.wrapping_mul(0x100000001b3);
    }
    h
}

/// A scratch directory that is removed on drop.
pub struct Scratch {
    pub path: PathBuf,
    keep: bool,
    /// Exclusive flock on `<path>.lock` for fixed-path worlds: two runs that map to the same
    /// key (identical generated scenarios, or another process exploring the same seed) take
    /// turns instead of sharing the directory.
    _lock: Option<fs::File>,
}

fn lock_exclusive(path: &Path) -> Option<fs::File> {
    use std::os::fd::AsRawFd;
    let lock = PathBuf::from(format!("{}.lock", path.to_string_lossy()));
    if let Some(parent) = lock.parent() {
        let _ = fs::create_dir_all(parent);
    }
    let f = fs::OpenOptions::new().create(true).write(true).truncate(false).open(&lock).ok()?;
    // SAFETY: plain flock(2) on a descriptor this function owns.
    unsafe {
        libc::flock(f.as_raw_fd(), libc::LOCK_EX);
    }
    Some(f)
}

impl Scratch {
    pub fn new(tag: &str) -> Scratch {
        use std::sync::atomic::{AtomicU64, Ordering};
        static N: AtomicU64 = AtomicU64::new(0);
        let root = std::env::var("VERIF_SCRATCH").unwrap_or_else(|_| "/verif/target/scratch".to_string());
        let path = PathBuf::from(root)
            .join(format!("{}", std::process::id()))
            .join(format!("{tag}{}", N.fetch_add(1, Ordering::Relaxed)));
        let _ = fs::remove_dir_all(&path);
        fs::create_dir_all(&path).unwrap();
        Scratch { path, keep: false, _lock: None }
    }
    /// A scratch directory whose path is a function of `key` only (fixed length,
    /// no pid): byte-exact replays need the same absolute paths, because cache
    /// blobs and manifests embed them.
    pub fn fixed(key: u64) -> Scratch {
        let root = std::env::var("VERIF_SCRATCH").unwrap_or_else(|_| "/verif/target/scratch".to_string());
        let path = PathBuf::from(root).join("f").join(format!("{key:016x}"));
        let lock = lock_exclusive(&path);
        let _ = fs::remove_dir_all(&path);
        fs::create_dir_all(&path).unwrap();
        Scratch { path, keep: false, _lock: lock }
    }
    /// Like [`Scratch::fixed`] but under an explicit root (for work that must live
    /// outside any git work tree: veryl's `Git::init` adopts an enclosing repository).
    pub fn fixed_in(root: &str, key: u64) -> Scratch {
        let path = PathBuf::from(root).join(format!("{key:016x}"));
        let lock = lock_exclusive(&path);
        let _ = fs::remove_dir_all(&path);
        fs::create_dir_all(&path).unwrap();
        Scratch { path, keep: false, _lock: lock }
    }
    pub fn keep(&mut self) {
        self.keep = true;
    }
}

impl Drop for Scratch {
    fn drop(&mut self) {
        if !self.keep {
            let _ = fs::remove_dir_all(&self.path);
        }
    }
}

/// Removes this process's scratch root (call at the end of a run).
pub fn cleanup_scratch_root() {
    let root = std::env::var("VERIF_SCRATCH").unwrap_or_else(|_| "/verif/target/scratch".to_string());
    let _ = fs::remove_dir_all(PathBuf::from(root).join(format!("{}", std::process::id())));
}
