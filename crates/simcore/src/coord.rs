//! Coordinator: the scheduler that owns every subprocess actor.
//!
//! Actors (real `veryl-sim` processes and the worker threads inside them)
//! connect to a Unix socket and park at every gate of `veryl_path::sim`.
//! The coordinator keeps at most one actor runnable: it picks one parked
//! actor (the `Decider` chooses), answers its gate, and waits for that
//! actor's next gate or exit before choosing again. Who runs is never the
//! operating system's choice, so a schedule is a finite list of decisions.

use std::collections::BTreeMap;
use std::io::{BufRead, BufReader, Write};
use std::os::unix::net::{UnixListener, UnixStream};
use std::path::{Path, PathBuf};
use std::process::{Child, Command, Stdio};
use std::sync::atomic::{AtomicBool, Ordering};
use std::sync::mpsc::{self, Receiver, RecvTimeoutError, Sender};
use std::sync::Arc;
use std::time::{Duration, Instant};

use serde::{Deserialize, Serialize};

#[derive(Clone, Debug, Serialize, Deserialize, PartialEq, Eq)]
pub struct Event {
    pub kind: String,
    pub path: String,
    pub len: u64,
    pub hash: u64,
}

#[derive(Clone, Copy, Debug, Serialize, Deserialize, PartialEq, Eq)]
pub enum Verdict {
    Go,
    Fail(i32),
    Crash,
    Prefix(u64),
    Value(u64),
}

impl Verdict {
    fn wire(&self) -> String {
        match self {
            Verdict::Go => "G\n".to_string(),
            Verdict::Fail(e) => format!("F {e}\n"),
            Verdict::Crash => "C\n".to_string(),
            Verdict::Prefix(n) => format!("P {n}\n"),
            Verdict::Value(v) => format!("V {v}\n"),
        }
    }
    pub fn is_crash(&self) -> bool {
        matches!(self, Verdict::Crash | Verdict::Prefix(_))
    }
}

#[derive(Clone, Debug)]
pub struct ProcSpec {
    pub name: String,
    pub exe: PathBuf,
    pub args: Vec<String>,
    pub cwd: PathBuf,
    pub env: Vec<(String, String)>,
}

#[derive(Clone, Debug, Serialize, Deserialize)]
pub struct TraceEntry {
    pub seq: usize,
    pub actor: String,
    pub kind: String,
    pub path: String,
    pub len: u64,
    pub hash: u64,
    pub verdict: Verdict,
    pub now: u64,
    /// Number of gates released before this event arrived (the actor ran, and
    /// did whatever the event reports, before that point).
    #[serde(default)]
    pub arrived: usize,
}

#[derive(Clone, Debug, Default)]
pub struct ProcResult {
    pub name: String,
    pub exit: Option<i32>,
    pub stdout: String,
    pub stderr: String,
    /// The simulator told this process to die.
    pub sim_crashed: bool,
}

#[derive(Debug, Default)]
pub struct RunResult {
    pub trace: Vec<TraceEntry>,
    pub procs: Vec<ProcResult>,
    pub deadlock: Option<String>,
    pub harness_error: Option<String>,
    pub now_end: u64,
    /// (actor, lock path) for every `lock.blocked` report.
    pub blocked: Vec<(String, String)>,
}

pub struct Cand<'a> {
    pub actor: &'a str,
    pub ev: &'a Event,
}

pub trait Decider {
    /// Index into `cands` (sorted by actor name) of the actor that proceeds.
    fn pick(&mut self, cands: &[Cand]) -> usize;
    /// Verdict for the gate `ev` the chosen actor is parked at. `seq` is the
    /// global gate number, `actor_seq` the actor's own gate number.
    fn verdict(&mut self, actor: &str, ev: &Event, seq: usize, actor_seq: usize) -> Verdict;
    /// Simulated milliseconds that pass before the chosen gate.
    fn tick(&mut self) -> u64 {
        1
    }
}

enum Msg {
    Hello { conn: usize, name: String, stream: UnixStream },
    Event { conn: usize, ev: Event },
    Eof { conn: usize },
}

#[derive(PartialEq, Eq, Debug, Clone, Copy)]
enum Status {
    New,
    Parked,
    Running,
    Waiting,
    /// A main thread whose last worker has just finished: it is about to report `block.end`
    /// and is counted in `expected` until it does, so that nobody is picked in between.
    Returning,
    Done,
}

struct Actor {
    name: String,
    proc_idx: usize,
    is_main: bool,
    stream: UnixStream,
    pending: Option<Event>,
    arrived: usize,
    status: Status,
    blocked_at: Option<u64>,
    nseq: usize,
}

fn reader(conn: usize, stream: UnixStream, tx: Sender<Msg>) {
    let Ok(write_half) = stream.try_clone() else {
        let _ = tx.send(Msg::Eof { conn });
        return;
    };
    let mut reader = BufReader::new(stream);
    let mut line = String::new();
    let mut hello = Some(write_half);
    loop {
        line.clear();
        match reader.read_line(&mut line) {
            Ok(n) if n > 0 => {}
            _ => {
                let _ = tx.send(Msg::Eof { conn });
                return;
            }
        }
        let parts: Vec<&str> = line.trim_end_matches('\n').split('\t').collect();
        match parts.first().copied() {
            Some("H") if parts.len() >= 2 => {
                if let Some(stream) = hello.take() {
                    let _ = tx.send(Msg::Hello {
                        conn,
                        name: parts[1].to_string(),
                        stream,
                    });
                }
            }
            Some("E") if parts.len() >= 5 => {
                let ev = Event {
                    kind: parts[1].to_string(),
                    path: parts[2].to_string(),
                    len: parts[3].parse().unwrap_or(0),
                    hash: parts[4].parse().unwrap_or(0),
                };
                if tx.send(Msg::Event { conn, ev }).is_err() {
                    return;
                }
            }
            _ => {}
        }
    }
}

struct Live {
    child: Child,
    out: PathBuf,
    err: PathBuf,
    done: bool,
}

fn reap(live: &mut Live, res: &mut ProcResult, block: bool) -> bool {
    if live.done {
        return true;
    }
    let status = if block {
        live.child.wait().ok()
    } else {
        live.child.try_wait().ok().flatten()
    };
    if let Some(status) = status {
        live.done = true;
        res.exit = status.code();
        res.stdout = String::from_utf8_lossy(&std::fs::read(&live.out).unwrap_or_default()).to_string();
        res.stderr = String::from_utf8_lossy(&std::fs::read(&live.err).unwrap_or_default()).to_string();
        true
    } else {
        false
    }
}

/// Runs `procs` to completion under `decider`. `dir` is a short scratch
/// directory for the socket and the captured stdout/stderr files.
pub fn run(
    dir: &Path,
    procs: &[ProcSpec],
    start_now: u64,
    decider: &mut dyn Decider,
    timeout: Duration,
) -> RunResult {
    let mut result = RunResult {
        now_end: start_now,
        ..Default::default()
    };
    let _ = std::fs::create_dir_all(dir);
    let sock = dir.join("s");
    let _ = std::fs::remove_file(&sock);
    let listener = match UnixListener::bind(&sock) {
        Ok(x) => x,
        Err(e) => {
            result.harness_error = Some(format!("bind {}: {e}", sock.display()));
            return result;
        }
    };
    listener.set_nonblocking(true).unwrap();
    let (tx, rx): (Sender<Msg>, Receiver<Msg>) = mpsc::channel();
    let stop = Arc::new(AtomicBool::new(false));
    let acceptor = {
        let stop = stop.clone();
        let tx = tx.clone();
        std::thread::spawn(move || {
            let mut next = 0usize;
            while !stop.load(Ordering::Relaxed) {
                match listener.accept() {
                    Ok((stream, _)) => {
                        let _ = stream.set_nonblocking(false);
                        let conn = next;
                        next += 1;
                        let tx = tx.clone();
                        std::thread::spawn(move || reader(conn, stream, tx));
                    }
                    Err(_) => std::thread::sleep(Duration::from_micros(300)),
                }
            }
        })
    };

    let mut lives: Vec<Live> = Vec::new();
    for (i, p) in procs.iter().enumerate() {
        let out = dir.join(format!("out{i}"));
        let err = dir.join(format!("err{i}"));
        let mut cmd = Command::new(&p.exe);
        cmd.args(&p.args)
            .current_dir(&p.cwd)
            .env("VERYL_SIM_SOCK", &sock)
            .env("VERYL_SIM_ACTOR", &p.name)
            .env("NO_COLOR", "1")
            .stdin(Stdio::null())
            .stdout(std::fs::File::create(&out).unwrap())
            .stderr(std::fs::File::create(&err).unwrap());
        for (k, v) in &p.env {
            cmd.env(k, v);
        }
        match cmd.spawn() {
            Ok(child) => lives.push(Live {
                child,
                out,
                err,
                done: false,
            }),
            Err(e) => {
                result.harness_error = Some(format!("spawn {}: {e}", p.exe.display()));
                for l in lives.iter_mut() {
                    let _ = l.child.kill();
                    let _ = l.child.wait();
                }
                stop.store(true, Ordering::Relaxed);
                let _ = acceptor.join();
                return result;
            }
        }
        result.procs.push(ProcResult {
            name: p.name.clone(),
            ..Default::default()
        });
    }

    let mut actors: BTreeMap<usize, Actor> = BTreeMap::new();
    let mut workers_of: Vec<usize> = vec![0; procs.len()];
    // Processes that have not reached their first gate yet, plus announced children.
    let mut expected: usize = procs.len();
    let mut started: Vec<bool> = vec![false; procs.len()];
    let mut running: Option<usize> = None;
    let mut progress: u64 = 0;
    let mut now = start_now;
    let mut seq = 0usize;
    let deadline = Instant::now() + timeout;

    'main: loop {
        // Completion / exits of processes that never connected.
        for (i, live) in lives.iter_mut().enumerate() {
            if !live.done && reap(live, &mut result.procs[i], false) && !started[i] {
                started[i] = true;
                expected = expected.saturating_sub(1);
            }
        }
        let all_done = lives.iter().all(|l| l.done);
        let all_actors_done = actors.values().all(|a| a.status == Status::Done);
        if all_done && all_actors_done {
            break;
        }

        if running.is_none() && expected == 0 {
            let mut cands: Vec<usize> = actors
                .iter()
                .filter(|(_, a)| {
                    a.status == Status::Parked && a.blocked_at.is_none_or(|b| progress > b)
                })
                .map(|(k, _)| *k)
                .collect();
            cands.sort_by(|a, b| actors[a].name.cmp(&actors[b].name));
            if !cands.is_empty() {
                let pick = {
                    let view: Vec<Cand> = cands
                        .iter()
                        .map(|k| Cand {
                            actor: &actors[k].name,
                            ev: actors[k].pending.as_ref().unwrap(),
                        })
                        .collect();
                    decider.pick(&view).min(cands.len() - 1)
                };
                let key = cands[pick];
                now += decider.tick().max(1);
                let a = actors.get_mut(&key).unwrap();
                let ev = a.pending.take().unwrap();
                a.blocked_at = None;
                let verdict = if ev.kind == "now" {
                    Verdict::Value(now)
                } else if ev.kind.starts_with("block.begin") {
                    Verdict::Go
                } else if ev.kind == "lock.blocked" {
                    Verdict::Go
                } else if ev.kind == "choice.test.duration_us" {
                    // The duration `veryl test` records per test (it orders the next run's
                    // dispatch) is wall-clock time: replaced by a function of the schedule.
                    Verdict::Value(1000 + (seq as u64 * 7919) % 100_000)
                } else if ev.kind == "aot.main" || ev.kind == "aot.const" {
                    // The moment the background-compiled artefact becomes visible is wall-clock
                    // time; under this coordinator it is always "from the first dispatch"
                    // (2 = wait for the real compile, then use it). The swap point itself is
                    // swapsim's dimension (C33).
                    Verdict::Value(2)
                } else {
                    decider.verdict(&a.name, &ev, seq, a.nseq)
                };
                result.trace.push(TraceEntry {
                    seq,
                    actor: a.name.clone(),
                    kind: ev.kind.clone(),
                    path: ev.path.clone(),
                    len: ev.len,
                    hash: ev.hash,
                    verdict,
                    now,
                    arrived: a.arrived,
                });
                seq += 1;
                a.nseq += 1;
                progress += 1;
                if verdict.is_crash() {
                    result.procs[a.proc_idx].sim_crashed = true;
                }
                let _ = a.stream.write_all(verdict.wire().as_bytes());
                if ev.kind.starts_with("block.begin") {
                    a.status = Status::Waiting;
                    expected += ev.len as usize;
                } else {
                    a.status = Status::Running;
                    running = Some(key);
                }
                continue;
            }
            // Nobody can be picked.
            let parked_blocked: Vec<String> = actors
                .values()
                .filter(|a| a.status == Status::Parked && a.blocked_at.is_some())
                .map(|a| format!("{} on {}", a.name, a.pending.as_ref().map(|e| e.path.clone()).unwrap_or_default()))
                .collect();
            // A main thread waiting for its workers is about to come back (block.end)
            // once none of them is left; it only stays away while a worker is stuck.
            let any_other_live = actors.values().any(|a| {
                matches!(a.status, Status::Running | Status::New | Status::Returning)
                    || (a.status == Status::Waiting
                        && !actors
                            .values()
                            .any(|b| b.proc_idx == a.proc_idx && !b.is_main && b.status != Status::Done))
            });
            if !parked_blocked.is_empty() && !any_other_live {
                // Every live actor waits for a lock nobody will release —
                // unless a process is between its last gate and its exit.
                let exiting = lives.iter().enumerate().any(|(i, l)| {
                    !l.done
                        && actors
                            .values()
                            .filter(|a| a.proc_idx == i)
                            .all(|a| a.status == Status::Done)
                });
                if !exiting {
                    result.deadlock = Some(parked_blocked.join("; "));
                    break 'main;
                }
            }
        }

        if Instant::now() > deadline {
            result.harness_error = Some(format!(
                "timeout after {:?}; running={:?} expected={expected}",
                timeout,
                running.map(|k| actors[&k].name.clone())
            ));
            break;
        }
        let msg = match rx.recv_timeout(Duration::from_millis(20)) {
            Ok(m) => m,
            Err(RecvTimeoutError::Timeout) => continue,
            Err(RecvTimeoutError::Disconnected) => break,
        };
        match msg {
            Msg::Hello { conn, name, stream } => {
                let proc_idx = procs.iter().position(|p| p.name == name).unwrap_or(0);
                let is_main = !actors.values().any(|a| a.proc_idx == proc_idx && a.is_main);
                let name = if is_main {
                    name
                } else {
                    let n = workers_of[proc_idx];
                    workers_of[proc_idx] += 1;
                    format!("{name}.w{n}")
                };
                actors.insert(
                    conn,
                    Actor {
                        name,
                        proc_idx,
                        is_main,
                        stream,
                        pending: None,
                        arrived: 0,
                        status: Status::New,
                        blocked_at: None,
                        nseq: 0,
                    },
                );
            }
            Msg::Event { conn, ev } => {
                if let Some(a) = actors.get_mut(&conn) {
                    if a.status == Status::New || a.status == Status::Returning {
                        expected = expected.saturating_sub(1);
                        if a.is_main {
                            started[a.proc_idx] = true;
                        }
                    }
                    if ev.kind == "lock.blocked" {
                        a.blocked_at = Some(progress);
                        result.blocked.push((a.name.clone(), ev.path.clone()));
                    }
                    a.pending = Some(ev);
                    a.arrived = seq;
                    a.status = Status::Parked;
                    if running == Some(conn) {
                        running = None;
                    }
                }
            }
            Msg::Eof { conn } => {
                if let Some(a) = actors.get_mut(&conn) {
                    if a.status == Status::New {
                        expected = expected.saturating_sub(1);
                    }
                    let was_returning = a.status == Status::Returning;
                    a.status = Status::Done;
                    a.pending = None;
                    progress += 1;
                    if running == Some(conn) {
                        running = None;
                    }
                    if was_returning {
                        expected = expected.saturating_sub(1);
                    }
                    if !a.is_main {
                        // the last worker of a waiting main thread: the main thread comes back
                        let i = a.proc_idx;
                        let workers_left = actors.values().any(|b| b.proc_idx == i && !b.is_main && b.status != Status::Done);
                        if !workers_left
                            && let Some(m) = actors.values_mut().find(|b| b.proc_idx == i && b.is_main && b.status == Status::Waiting)
                        {
                            m.status = Status::Returning;
                            expected += 1;
                        }
                    }
                    let a = actors.get_mut(&conn).unwrap();
                    if a.is_main {
                        let i = a.proc_idx;
                        started[i] = true;
                        reap(&mut lives[i], &mut result.procs[i], true);
                        // All other connections of this process die with it.
                        for b in actors.values_mut() {
                            if b.proc_idx == i && b.status != Status::Done {
                                if b.status == Status::New || b.status == Status::Returning {
                                    expected = expected.saturating_sub(1);
                                }
                                b.status = Status::Done;
                                b.pending = None;
                            }
                        }
                        if let Some(k) = running
                            && actors[&k].status == Status::Done
                        {
                            running = None;
                        }
                    }
                }
            }
        }
    }

    for (i, live) in lives.iter_mut().enumerate() {
        if !live.done {
            let _ = live.child.kill();
            reap(live, &mut result.procs[i], true);
        }
    }
    stop.store(true, Ordering::Relaxed);
    let _ = acceptor.join();
    let _ = std::fs::remove_file(&sock);
    result.now_end = now;
    result
}

/// Decider that lets everything through, in name order; records nothing.
pub struct PassThrough;
impl Decider for PassThrough {
    fn pick(&mut self, _cands: &[Cand]) -> usize {
        0
    }
    fn verdict(&mut self, _actor: &str, _ev: &Event, _seq: usize, _actor_seq: usize) -> Verdict {
        Verdict::Go
    }
}
