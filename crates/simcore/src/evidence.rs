//! Evidence files (/verif/evidence/<id>.json) and replay files.

use serde_json::{json, Map, Value};
use std::collections::BTreeMap;
use std::path::{Path, PathBuf};

pub struct Evidence {
    pub property_id: String,
    pub tier: String,
    pub seed: u64,
    pub level: String,
    pub evaluations: u64,
    pub distinct_nontrivial: u64,
    pub rule: String,
    pub samples: Vec<Value>,
    pub extra: Map<String, Value>,
    pub assumptions: Vec<String>,
    pub wall_s: f64,
    pub violations: u64,
}

impl Evidence {
    pub fn write(&self) {
        let mut coverage = Map::new();
        coverage.insert("evaluations".into(), json!(self.evaluations));
        coverage.insert("distinct_nontrivial".into(), json!(self.distinct_nontrivial));
        coverage.insert("rule".into(), json!(self.rule));
        coverage.insert("samples".into(), json!(self.samples));
        for (k, v) in &self.extra {
            coverage.insert(k.clone(), v.clone());
        }
        let v = json!({
            "property_id": self.property_id,
            "tier": self.tier,
            "seed": self.seed,
            "level": self.level,
            "coverage": coverage,
            "assumptions": self.assumptions,
            "wall_s": self.wall_s,
            "violations": self.violations,
        });
        let dir = out_root().join("evidence");
        let _ = std::fs::create_dir_all(&dir);
        let path = dir.join(format!("{}.json", self.property_id));
        std::fs::write(&path, serde_json::to_string_pretty(&v).unwrap()).unwrap();
    }
}

pub fn verif_root() -> PathBuf {
    PathBuf::from(std::env::var("VERIF_ROOT").unwrap_or_else(|_| "/verif".to_string()))
}

/// Where evidence and replay files go (exploratory background runs set VERIF_OUT).
pub fn out_root() -> PathBuf {
    std::env::var("VERIF_OUT").map(PathBuf::from).unwrap_or_else(|_| verif_root())
}

pub fn tier() -> String {
    std::env::var("VERIF_TIER").unwrap_or_else(|_| "quick".to_string())
}

/// Writes a replay file and returns its path.
pub fn write_replay(property: &str, name: &str, v: &Value) -> PathBuf {
    let dir = out_root().join("replays").join(property);
    let _ = std::fs::create_dir_all(&dir);
    let path = dir.join(format!("{name}.json"));
    std::fs::write(&path, serde_json::to_string_pretty(v).unwrap()).unwrap();
    path
}

#[derive(Clone, Debug)]
pub struct Finding {
    pub property: String,
    pub key: String,
    pub status: String,
    pub what: String,
}

/// Known findings committed under /verif/known_findings.json.
pub fn load_known(property: &str) -> Vec<Finding> {
    let path = verif_root().join("known_findings.json");
    let Ok(text) = std::fs::read_to_string(path) else {
        return vec![];
    };
    let Ok(v) = serde_json::from_str::<Value>(&text) else {
        return vec![];
    };
    let mut out = vec![];
    if let Some(arr) = v.get("findings").and_then(|x| x.as_array()) {
        for f in arr {
            let g = |k: &str| f.get(k).and_then(|x| x.as_str()).unwrap_or("").to_string();
            if g("property") == property {
                out.push(Finding {
                    property: g("property"),
                    key: g("key"),
                    status: g("status"),
                    what: g("what"),
                });
            }
        }
    }
    out
}

/// Counter map helper for fault/probe counts.
#[derive(Default, Clone, Debug)]
pub struct Counters(pub BTreeMap<String, u64>);

impl Counters {
    pub fn add(&mut self, k: &str, n: u64) {
        *self.0.entry(k.to_string()).or_insert(0) += n;
    }
    pub fn inc(&mut self, k: &str) {
        self.add(k, 1);
    }
    pub fn merge(&mut self, o: &Counters) {
        for (k, v) in &o.0 {
            self.add(k, *v);
        }
    }
    pub fn get(&self, k: &str) -> u64 {
        self.0.get(k).copied().unwrap_or(0)
    }
    pub fn to_json(&self) -> Value {
        json!(self.0)
    }
}

pub fn exists(p: &Path) -> bool {
    p.exists()
}
