//! Parallel map over run indices (work stealing by an atomic counter).

use std::sync::atomic::{AtomicUsize, Ordering};
use std::sync::Mutex;

pub fn workers() -> usize {
    std::env::var("VERIF_JOBS")
        .ok()
        .and_then(|x| x.parse().ok())
        .unwrap_or_else(|| std::thread::available_parallelism().map(|n| n.get()).unwrap_or(4))
}

pub fn par_map<T: Send, F: Fn(usize) -> T + Sync>(n: usize, jobs: usize, f: F) -> Vec<T> {
    let next = AtomicUsize::new(0);
    let out: Mutex<Vec<(usize, T)>> = Mutex::new(Vec::with_capacity(n));
    std::thread::scope(|s| {
        for _ in 0..jobs.max(1).min(n.max(1)) {
            std::thread::Builder::new()
                .stack_size(64 << 20)
                .spawn_scoped(s, || loop {
                    let i = next.fetch_add(1, Ordering::Relaxed);
                    if i >= n {
                        break;
                    }
                    let r = f(i);
                    out.lock().unwrap().push((i, r));
                })
                .unwrap();
        }
    });
    let mut v = out.into_inner().unwrap();
    v.sort_by_key(|x| x.0);
    v.into_iter().map(|x| x.1).collect()
}
