//! Fixed small designs for the hot-swap simulator. Each has a `Top` module;
//! `inputs` lists (port, width) driven with seeded values every cycle.

pub struct Design {
    pub name: &'static str,
    pub code: &'static str,
    pub inputs: &'static [(&'static str, usize)],
    pub outputs: &'static [&'static str],
    pub clocked: bool,
    pub reset: bool,
}

pub fn designs() -> Vec<Design> {
    vec![
        Design {
            name: "counter",
            code: r#"
module Top (
    clk: input  clock    ,
    rst: input  reset    ,
    en : input  logic    ,
    cnt: output logic<16>,
) {
    always_ff {
        if_reset {
            cnt = 0;
        } else if en {
            cnt += 3;
        }
    }
}
"#,
            inputs: &[("en", 1)],
            outputs: &["cnt"],
            clocked: true,
            reset: true,
        },
        Design {
            name: "fsm",
            code: r#"
module Top (
    clk  : input  clock   ,
    rst  : input  reset   ,
    go   : input  logic   ,
    stop : input  logic   ,
    state: output logic<2>,
    busy : output logic   ,
) {
    always_ff {
        if_reset {
            state = 0;
        } else {
            case state {
                2'd0   : if go {
                             state = 1;
                         }
                2'd1   : state = 2;
                2'd2   : if stop {
                             state = 0;
                         } else {
                             state = 3;
                         }
                default: state = 0;
            }
        }
    }
    assign busy = state != 0;
}
"#,
            inputs: &[("go", 1), ("stop", 1)],
            outputs: &["state", "busy"],
            clocked: true,
            reset: true,
        },
        Design {
            name: "wide_comb",
            code: r#"
module Top (
    a: input  logic<200>,
    b: input  logic<200>,
    c: output logic<200>,
    d: output logic<200>,
    e: output logic<200>,
) {
    assign c = (a & b) | (a ^ b);
    assign d = a + b;
    assign e = a << 8;
}
"#,
            inputs: &[("a", 200), ("b", 200)],
            outputs: &["c", "d", "e"],
            clocked: false,
            reset: false,
        },
        Design {
            name: "const_cone",
            code: r#"
module Top (
    clk: input  clock    ,
    rst: input  reset    ,
    x  : input  logic<8> ,
    y  : output logic<16>,
    z  : output logic<16>,
) {
    const K0: logic<16> = 16'h1234;
    var k1  : logic<16>;
    var k2  : logic<16>;
    var acc : logic<16>;
    assign k1 = K0 + 16'd7;
    assign k2 = (k1 << 1) ^ 16'h00ff;
    always_ff {
        if_reset {
            acc = 0;
        } else {
            acc = acc + k2 + {8'd0, x};
        }
    }
    assign y = acc;
    assign z = k2 + {8'd0, x};
}
"#,
            inputs: &[("x", 8)],
            outputs: &["y", "z"],
            clocked: true,
            reset: true,
        },
        Design {
            name: "const_var",
            code: r#"
module Top (
    clk: input  clock   ,
    rst: input  reset   ,
    d  : input  logic<8>,
    en : input  logic   ,
    cnt: output logic<8>,
    acc: output logic<8>,
    sum: output logic<8>,
) {
    var k  : logic<8>;
    var nxt: logic<8>;
    assign k = 8'h5a;
    always_comb {
        nxt = if en ? cnt + 1 : cnt;
    }
    always_ff {
        if_reset {
            cnt = 0;
            acc = 0;
        } else {
            cnt = nxt;
            acc = d ^ k;
        }
    }
    assign sum = (cnt + acc) ^ k;
}
"#,
            inputs: &[("d", 8), ("en", 1)],
            outputs: &["cnt", "acc", "sum"],
            clocked: true,
            reset: true,
        },
        Design {
            name: "multipass",
            code: r#"
module Top (
    a: input  logic<8>,
    o: output logic<8>,
    p: output logic<8>,
) {
    var w0: logic<8>;
    var w1: logic<8>;
    var w2: logic<8>;
    var w3: logic<8>;
    assign o  = w3 + 1;
    assign w3 = w2 ^ 8'h55;
    assign w2 = w1 + w0;
    assign w1 = w0 << 1;
    assign w0 = a + 3;
    assign p  = w1 & w3;
}
"#,
            inputs: &[("a", 8)],
            outputs: &["o", "p"],
            clocked: false,
            reset: false,
        },
        Design {
            name: "regfile",
            code: r#"
module Top (
    clk: input  clock    ,
    rst: input  reset    ,
    we : input  logic    ,
    wa : input  logic<3> ,
    ra : input  logic<3> ,
    wd : input  logic<32>,
    rd : output logic<32>,
) {
    var mem: logic<32> [8];
    always_ff {
        if_reset {
            for i in 0..8 {
                mem[i] = 0;
            }
        } else if we {
            mem[wa] = wd;
        }
    }
    assign rd = mem[ra];
}
"#,
            inputs: &[("we", 1), ("wa", 3), ("ra", 3), ("wd", 32)],
            outputs: &["rd"],
            clocked: true,
            reset: true,
        },
        Design {
            name: "hier",
            code: r#"
module Stage (
    clk: input  clock   ,
    rst: input  reset   ,
    i_d: input  logic<8>,
    o_d: output logic<8>,
) {
    var r: logic<8>;
    always_ff {
        if_reset {
            r = 0;
        } else {
            r = i_d + 1;
        }
    }
    assign o_d = r ^ 8'h0f;
}
module Top (
    clk: input  clock   ,
    rst: input  reset   ,
    d  : input  logic<8>,
    q  : output logic<8>,
) {
    var m0: logic<8>;
    var m1: logic<8>;
    inst s0: Stage (clk, rst, i_d: d , o_d: m0);
    inst s1: Stage (clk, rst, i_d: m0, o_d: m1);
    inst s2: Stage (clk, rst, i_d: m1, o_d: q );
}
"#,
            inputs: &[("d", 8)],
            outputs: &["q"],
            clocked: true,
            reset: true,
        },
        Design {
            name: "func_signed",
            code: r#"
module Top (
    clk: input  clock          ,
    rst: input  reset          ,
    a  : input  signed logic<12>,
    b  : input  signed logic<12>,
    s  : output signed logic<12>,
    m  : output logic<24>       ,
) {
    function sat (
        x: input signed logic<12>,
        y: input signed logic<12>,
    ) -> signed logic<12> {
        return if x >: y ? x - y : y - x;
    }
    var acc: logic<24>;
    always_ff {
        if_reset {
            acc = 0;
        } else {
            acc = acc + {12'd0, sat(a, b) as 12};
        }
    }
    assign s = sat(a, b);
    assign m = acc;
}
"#,
            inputs: &[("a", 12), ("b", 12)],
            outputs: &["s", "m"],
            clocked: true,
            reset: true,
        },
        Design {
            name: "wide_ff",
            code: r#"
module Top (
    clk: input  clock     ,
    rst: input  reset     ,
    a  : input  logic<100>,
    sel: input  logic<2>  ,
    q  : output logic<100>,
    p  : output logic     ,
) {
    var r: logic<100>;
    always_ff {
        if_reset {
            r = 0;
        } else {
            case sel {
                2'd0   : r = r + a;
                2'd1   : r = r ^ a;
                2'd2   : r = {r[98:0], r[99]};
                default: r = a;
            }
        }
    }
    assign q = r;
    assign p = ^r;
}
"#,
            inputs: &[("a", 100), ("sel", 2)],
            outputs: &["q", "p"],
            clocked: true,
            reset: true,
        },
        Design {
            name: "shift_mux",
            code: r#"
module Top (
    a  : input  logic<32>,
    sh : input  logic<5> ,
    op : input  logic<2> ,
    y  : output logic<32>,
    nz : output logic    ,
) {
    always_comb {
        case op {
            2'd0   : y = a << sh;
            2'd1   : y = a >> sh;
            2'd2   : y = a >>> sh;
            default: y = ~a;
        }
    }
    assign nz = y != 0;
}
"#,
            inputs: &[("a", 32), ("sh", 5), ("op", 2)],
            outputs: &["y", "nz"],
            clocked: false,
            reset: false,
        },
    ]
}
