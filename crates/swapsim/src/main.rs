//! swapsim — C33: switching to the compiled C backend mid-run is invisible.
//!
//! In-process: design → analyzer IR → simulator IR with the asynchronous C
//! backend; the real pool thread compiles with the real `cc` and publishes the
//! artifact through the real `OnceLock`. The `aot_gate` seam makes the artifact
//! *visible* to the simulator only from dispatch call `n` on, per cell — the
//! swap point is a decision of the schedule, not of the machine's timing. The
//! trace of every port after every step must equal the Cranelift-only run.

mod designs;

use designs::{designs, Design};
use serde::{Deserialize, Serialize};
use serde_json::json;
use simcore::evidence::{Counters, Evidence};
use simcore::rng::{mix, verif_seed, Rng};
use std::cell::RefCell;
use std::collections::{BTreeMap, BTreeSet};
use std::rc::Rc;
use veryl_analyzer::ir as air;
use veryl_analyzer::{symbol_table, Analyzer, Context};
use veryl_metadata::Metadata;
use veryl_parser::Parser;
use veryl_path::sim::{self, Verdict};
use veryl_simulator::ir::{build_ir, Config, Event, Value};
use veryl_simulator::Simulator;

#[derive(Clone, Debug, Serialize, Deserialize)]
pub struct Scenario {
    pub design: String,
    pub stim_seed: u64,
    pub steps: usize,
    /// Per cell (in order of first dispatch): the dispatch-call number (const
    /// and main calls of that cell counted together) from which the compiled
    /// artifact is visible; u32::MAX = never.
    pub swap_at: Vec<u32>,
    /// Start with a reset step (when the design has a reset) or go straight to clock steps.
    #[serde(default = "yes")]
    pub reset_first: bool,
}

fn yes() -> bool {
    true
}

fn cfg(aot: bool) -> Config {
    Config {
        use_jit: true,
        aot_c: aot,
        aot_c_event: aot,
        aot_c_async: aot,
        aot_c_min_stmts: 0,
        seed: 7,
        ..Default::default()
    }
}

#[derive(Default)]
struct GateState {
    cells: Vec<u64>,
    calls: Vec<u32>,
    swap_at: Vec<u32>,
    /// (cell index, call number, is_const, visible)
    log: Vec<(usize, u32, bool, bool)>,
    waited_not_ready: u64,
    ready_dispatches: u64,
}

pub struct RunOut {
    pub ready_dispatches: u64,
    /// timing observation only: dispatches that had to wait for the real compile
    pub waited: u64,
    pub trace: Vec<String>,
    pub cells: usize,
    pub log: Vec<(usize, u32, bool, bool)>,
    pub error: Option<String>,
}

fn run_design(d: &Design, sc: &Scenario, aot: bool) -> RunOut {
    let code = d.code.to_string();
    let inputs: Vec<(String, usize)> = d.inputs.iter().map(|(n, w)| (n.to_string(), *w)).collect();
    let outputs: Vec<String> = d.outputs.iter().map(|s| s.to_string()).collect();
    let (clocked, reset) = (d.clocked, d.reset);
    let sc = sc.clone();
    let handle = std::thread::Builder::new()
        .stack_size(64 << 20)
        .spawn(move || {
            // Compiled artifacts are cached by source hash under a stable directory,
            // so each design is compiled by cc once per machine, not once per run.
            let cache = simcore::evidence::verif_root().join("target/aot-cache");
            let _ = std::fs::create_dir_all(&cache);
            sim::set_thread_cache_path(Some(cache));
            let state = Rc::new(RefCell::new(GateState { swap_at: sc.swap_at.clone(), ..Default::default() }));
            if aot {
                let st = state.clone();
                sim::set_thread_handler(Some(Box::new(move |ev| {
                    if ev.kind != "aot.main" && ev.kind != "aot.const" {
                        return Verdict::Go;
                    }
                    let mut s = st.borrow_mut();
                    let idx = match s.cells.iter().position(|c| *c == ev.len) {
                        Some(i) => i,
                        None => {
                            s.cells.push(ev.len);
                            s.calls.push(0);
                            s.cells.len() - 1
                        }
                    };
                    let n = s.calls[idx];
                    s.calls[idx] += 1;
                    let at = s.swap_at.get(idx).copied().unwrap_or(0);
                    let visible = n >= at;
                    s.log.push((idx, n, ev.kind == "aot.const", visible));
                    if visible && ev.hash == 0 {
                        s.waited_not_ready += 1;
                    }
                    if visible {
                        // served by the compiled artifact: ready on arrival, or waited for
                        s.ready_dispatches += 1;
                    }
                    // 0 = pretend not ready; 2 = wait until really ready, then use it
                    Verdict::Value(if visible { 2 } else { 0 })
                })));
            }
            let r = std::panic::catch_unwind(std::panic::AssertUnwindSafe(|| {
                symbol_table::clear();
                let metadata = Metadata::create_default("prj").unwrap();
                let parser = Parser::parse(&code, &"").map_err(|e| format!("parse: {e}"))?;
                let analyzer = Analyzer::new(&metadata);
                let mut context = Context::default();
                let mut errors = vec![];
                let mut ir = air::Ir::default();
                errors.append(&mut analyzer.analyze_pass1("prj", &parser.veryl));
                errors.append(&mut Analyzer::analyze_post_pass1());
                errors.append(&mut analyzer.analyze_pass2(&parser.veryl, &mut context, Some(&mut ir)));
                errors.append(&mut Analyzer::analyze_post_pass2(&ir));
                let errs: Vec<String> = errors.iter().filter(|e| e.is_error()).map(|e| e.to_string()).collect();
                if !errs.is_empty() {
                    return Err(format!("analysis errors: {errs:?}"));
                }
                let sir = build_ir(&ir, "Top".into(), &cfg(aot)).map_err(|e| format!("build_ir: {e}"))?;
                let mut simu = Simulator::new(sir, None);
                let clk = if clocked { simu.get_clock("clk") } else { None };
                let rst = if reset { simu.get_reset("rst") } else { None };
                let mut rng = Rng::new(sc.stim_seed);
                let mut trace = vec![];
                let mut snapshot = |simu: &mut Simulator, tag: &str, trace: &mut Vec<String>| {
                    let mut line = String::from(tag);
                    for o in &outputs {
                        line.push_str(&format!(" {o}={:?}", simu.get(o)));
                    }
                    trace.push(line);
                };
                if let (Some(c), Some(r), true) = (&clk, &rst, sc.reset_first) {
                    for (n, w) in &inputs {
                        simu.set(n, Value::new(0, *w, false));
                    }
                    simu.step_reset(c, r);
                    snapshot(&mut simu, "reset", &mut trace);
                }
                for i in 0..sc.steps {
                    for (n, w) in &inputs {
                        let v: u128 = ((rng.next_u64() as u128) << 64) | rng.next_u64() as u128;
                        let v = if *w >= 128 { v } else { v & ((1u128 << *w) - 1) };
                        simu.set(n, Value::from_u128(v, 0, *w, false));
                    }
                    match &clk {
                        Some(c) => simu.step(c),
                        None => simu.step(&Event::Clock(air::VarId::SYNTHETIC)),
                    }
                    snapshot(&mut simu, &format!("step{i}"), &mut trace);
                }
                Ok(trace)
            }));
            sim::set_thread_handler(None);
            let st = state.borrow();
            match r {
                Ok(Ok(trace)) => RunOut { ready_dispatches: st.ready_dispatches, waited: st.waited_not_ready, trace, cells: st.cells.len(), log: st.log.clone(), error: None },
                Ok(Err(e)) => RunOut { ready_dispatches: 0, waited: 0, trace: vec![], cells: 0, log: vec![], error: Some(e) },
                Err(p) => {
                    let msg = p.downcast_ref::<String>().cloned().or_else(|| p.downcast_ref::<&str>().map(|s| s.to_string())).unwrap_or("panic".into());
                    RunOut { ready_dispatches: 0, waited: 0, trace: vec![], cells: st.cells.len(), log: st.log.clone(), error: Some(format!("panic: {msg}")) }
                }
            }
        })
        .unwrap();
    handle.join().unwrap_or(RunOut { ready_dispatches: 0, waited: 0, trace: vec![], cells: 0, log: vec![], error: Some("thread died".into()) })
}

pub struct Outcome {
    pub ready_dispatches: u64,
    pub waited: u64,
    pub violation: Option<(String, String)>,
    pub cells: usize,
    pub log: Vec<(usize, u32, bool, bool)>,
    pub harness_error: Option<String>,
}

pub fn run(sc: &Scenario, refs: &mut BTreeMap<String, Vec<String>>) -> Outcome {
    let ds = designs();
    let Some(d) = ds.iter().find(|d| d.name == sc.design) else {
        return Outcome { ready_dispatches: 0, waited: 0, violation: None, cells: 0, log: vec![], harness_error: Some(format!("unknown design {}", sc.design)) };
    };
    let rkey = format!("{}|{}|{}|{}", sc.design, sc.stim_seed, sc.steps, sc.reset_first);
    if !refs.contains_key(&rkey) {
        let r = run_design(d, sc, false);
        if let Some(e) = r.error {
            return Outcome { ready_dispatches: 0, waited: 0, violation: None, cells: 0, log: vec![], harness_error: Some(format!("reference run of {}: {e}", d.name)) };
        }
        refs.insert(rkey.clone(), r.trace);
    }
    let out = run_design(d, sc, true);
    if let Some(e) = out.error {
        return Outcome { ready_dispatches: 0, waited: 0, violation: Some(("panic-or-error-under-swap".into(), format!("{} swap_at={:?}: {e}", d.name, sc.swap_at))), cells: out.cells, log: out.log, harness_error: None };
    }
    let want = &refs[&rkey];
    let mut violation = None;
    for (i, (g, w)) in out.trace.iter().zip(want.iter()).enumerate() {
        if g != w {
            violation = Some(("trace-differs".to_string(), format!("{} swap_at={:?}: first difference at trace line {i}: `{g}` but Cranelift-only gives `{w}`", d.name, sc.swap_at)));
            break;
        }
    }
    if violation.is_none() && out.trace.len() != want.len() {
        violation = Some(("trace-length".to_string(), format!("{} lines vs {}", out.trace.len(), want.len())));
    }
    Outcome { ready_dispatches: out.ready_dispatches, waited: out.waited, violation, cells: out.cells, log: out.log, harness_error: None }
}

fn gen_swaps(rng: &mut Rng, steps: usize) -> Vec<u32> {
    // up to 4 cells (comb + event cells); interesting points: 0, 1 (between the const and
    // the main dispatch of the first settle), 2, 3, small, mid-run, never
    (0..4)
        .map(|_| match rng.below(9) {
            0 => 0,
            1 => 1,
            2 => 2,
            3 => 3,
            4 | 5 => rng.below(2 * steps + 4) as u32,
            6 => rng.below(12) as u32,
            7 => u32::MAX,
            _ => (2 * rng.below(steps + 1) + 1) as u32,
        })
        .collect()
}

fn main() {
    let args: Vec<String> = std::env::args().collect();
    std::panic::set_hook(Box::new(|_| {}));
    if args.len() >= 3 && args[1] == "--replay" {
        let text = std::fs::read_to_string(&args[2]).expect("read replay");
        let v: serde_json::Value = serde_json::from_str(&text).expect("parse replay");
        let sc: Scenario = serde_json::from_value(v["scenario"].clone()).expect("scenario");
        let mut refs = BTreeMap::new();
        let o = run(&sc, &mut refs);
        if let Some(e) = o.harness_error {
            eprintln!("harness error: {e}");
            std::process::exit(2);
        }
        match o.violation {
            Some((c, d)) => {
                if std::env::var("VERIF_REPLAY_CHILD").is_err() {
                    println!("replayed [{c}]: {d}");
                    println!("VIOLATION property=C33 replay={}", args[2]);
                }
                std::process::exit(1);
            }
            None => {
                println!("replay did not reproduce a violation");
                std::process::exit(0);
            }
        }
    }
    let tier = args.get(1).cloned().unwrap_or_else(simcore::evidence::tier);
    let seed = verif_seed();
    let per_design: usize = std::env::var("VERIF_N").ok().and_then(|x| x.parse().ok()).unwrap_or(if tier == "thorough" { 3000 } else { 100 });
    let start = std::time::Instant::now();
    let ds = designs();
    println!("swapsim C33 tier={tier} VERIF_SEED={seed} designs={} schedules_per_design={per_design}", ds.len());
    if !veryl_simulator::backend::aot_c::cc_available() {
        eprintln!("harness error: no C compiler available; the asynchronous C backend cannot be exercised");
        std::process::exit(2);
    }
    let jobs = simcore::pool::workers();
    // Warm the artifact cache: one all-visible run per design (compiles with cc once).
    let warm = simcore::pool::par_map(ds.len(), jobs, |i| {
        let sc = Scenario { design: ds[i].name.to_string(), stim_seed: 1, steps: 4, swap_at: vec![0; 4], reset_first: true };
        let mut refs = BTreeMap::new();
        let o = run(&sc, &mut refs);
        (ds[i].name, o.cells, o.violation, o.harness_error)
    });
    let mut exit = 0;
    let mut found: Vec<(Scenario, String, String)> = vec![];
    let mut counters = Counters::default();
    for (name, cells, v, he) in &warm {
        counters.add(&format!("cells.{name}"), *cells as u64);
        if let Some(e) = he {
            eprintln!("harness error: {e}");
            exit = 2;
        }
        if *cells == 0 {
            counters.inc("design.without_compiled_cell");
        }
        if let Some((c, d)) = v {
            found.push((Scenario { design: name.to_string(), stim_seed: 1, steps: 4, swap_at: vec![0; 4], reset_first: true }, c.clone(), d.clone()));
        }
    }
    let total = ds.len() * per_design;
    let results = simcore::pool::par_map(jobs.min(total).max(1), jobs, |g| {
        let mut refs = BTreeMap::new();
        let mut out = vec![];
        let groups = jobs.min(total).max(1);
        let mut i = g;
        while i < total {
            let d = &ds[i % ds.len()];
            let mut rng = Rng::new(mix(seed, "C33", i as u64));
            let steps = 8 + rng.below(40);
            let sc = Scenario { design: d.name.to_string(), stim_seed: 1 + rng.below(4) as u64, steps, swap_at: gen_swaps(&mut rng, steps), reset_first: rng.chance(2, 3) };
            let o = run(&sc, &mut refs);
            out.push((i, sc, o));
            i += groups;
        }
        out
    });
    let mut distinct = BTreeSet::new();
    let mut samples = vec![];
    // in run-index order, whatever the number of workers
    let mut results: Vec<(usize, Scenario, Outcome)> = results.into_iter().flatten().collect();
    results.sort_by_key(|r| r.0);
    let mut waited_total = 0u64;
    for (_, sc, o) in results {
        waited_total += o.waited;
        if let Some(e) = o.harness_error {
            eprintln!("harness error: {e}");
            exit = 2;
            continue;
        }
        counters.inc(&format!("design.{}", sc.design));
        let mut swapped = 0;
        let mut between_const_and_main = false;
        let mut never = 0;
        for c in 0..o.cells {
            let calls: Vec<&(usize, u32, bool, bool)> = o.log.iter().filter(|l| l.0 == c).collect();
            let first_vis = calls.iter().position(|l| l.3);
            match first_vis {
                None => never += 1,
                Some(0) => counters.inc("swap.visible_from_first_call"),
                Some(k) => {
                    swapped += 1;
                    if calls[k - 1].2 && !calls[k].2 {
                        between_const_and_main = true;
                    }
                }
            }
        }
        counters.add("dispatch.calls_served_by_the_compiled_artifact", o.ready_dispatches);
        counters.add("swap.mid_run_swaps", swapped);
        counters.add("swap.cells_never_visible", never);
        if between_const_and_main {
            counters.inc("swap.between_const_and_main_dispatch");
        }
        if swapped > 0 {
            distinct.insert(simcore::fsutil::hash_u64(format!("{sc:?}").as_bytes()));
        }
        if samples.len() < 4 && swapped > 0 {
            samples.push(json!({"scenario": sc, "dispatch_calls": o.log.len(), "cells": o.cells}));
        }
        if let Some((c, d)) = o.violation {
            found.push((sc, c, d));
        }
    }
    let known = simcore::evidence::load_known("C33");
    let mut seen = BTreeSet::new();
    let mut printed = BTreeSet::new();
    let mut nviol = 0u64;
    let mut known_hits = 0u64;
    for (sc, class, detail) in found {
        let key = format!("{class}|{}", sc.design);
        if let Some(k) = known.iter().find(|k| k.status == "known" && key.contains(&k.key)) {
            known_hits += 1;
            if printed.insert(k.key.clone()) {
                println!("KNOWN-FINDING: property=C33 {}", k.what);
            }
            continue;
        }
        if !seen.insert(key.clone()) {
            continue;
        }
        // minimise: fewer steps, simpler swap vector (prefer 0 / never)
        let mut best = sc.clone();
        let mut refs = BTreeMap::new();
        let mut same = |c: &Scenario| run(c, &mut refs).violation.is_some_and(|v| v.0 == class);
        for i in 0..best.swap_at.len() {
            for alt in [0u32, u32::MAX] {
                if best.swap_at[i] != alt {
                    let mut cand = best.clone();
                    cand.swap_at[i] = alt;
                    if same(&cand) {
                        best = cand;
                        break;
                    }
                }
            }
        }
        while best.steps > 1 {
            let mut cand = best.clone();
            cand.steps /= 2;
            if same(&cand) {
                best = cand;
            } else {
                break;
            }
        }
        let path = simcore::evidence::write_replay("C33", &format!("{seed}-{nviol}"), &json!({"property": "C33", "violation_class": class, "violation": detail, "scenario": best, "seed": seed}));
        let child = std::process::Command::new(std::env::current_exe().unwrap()).arg("--replay").arg(&path).env("VERIF_REPLAY_CHILD", "1").output();
        if child.map(|o| o.status.code() == Some(1)).unwrap_or(false) {
            println!("violation [{key}]: {detail}");
            println!("VIOLATION property=C33 replay={}", path.display());
            nviol += 1;
            exit = 1;
        } else {
            eprintln!("harness error: C33 violation did not replay in a fresh process ({}): {detail}", path.display());
            exit = exit.max(2);
        }
    }
    for p in ["dispatch.calls_served_by_the_compiled_artifact", "swap.mid_run_swaps", "swap.cells_never_visible", "swap.visible_from_first_call"] {
        if counters.get(p) == 0 {
            eprintln!("harness error: reach probe {p} stayed at zero");
            exit = exit.max(2);
        }
    }
    let wall = start.elapsed().as_secs_f64();
    let mut extra = serde_json::Map::new();
    extra.insert("probes".into(), counters.to_json());
    extra.insert("timing".into(), json!({"dispatches_that_waited_for_the_real_compile": waited_total}));
    extra.insert("runs_per_hour".into(), json!((total as f64 / wall * 3600.0) as u64));
    extra.insert("known_finding_hits".into(), json!(known_hits));
    extra.insert("components".into(), json!({"real": ["analyzer -> simulator IR -> Cranelift JIT and AOT-C emit", "cc", "the compile pool thread and the OnceLock publish", "try_dispatch / try_dispatch_const and the chunked fallback"], "simulated": ["the dispatch call at which each cell's artifact becomes visible (aot_gate seam); the hook waits for the real compile when it says visible"]}));
    Evidence {
        property_id: "C33".into(),
        tier: tier.clone(),
        seed,
        level: "exploration".into(),
        evaluations: total as u64,
        distinct_nontrivial: distinct.len() as u64,
        rule: "11 fixed small designs (counter, FSM, 200-bit comb, constant cone, constant-driven variable feeding a flip-flop, multi-pass comb, register file, 3-stage hierarchy, signed function, 100-bit FF, shifter) x seeded stimulus of 8-47 steps (with or without an initial reset step) x seeded swap vectors (per cell: visible from dispatch call 0, 1, 2, 3, an odd call, a random call, never); every port after every step compared with the Cranelift-only run of the same stimulus. distinct_nontrivial = distinct scenarios in which at least one cell swapped mid-run".into(),
        samples,
        extra,
        assumptions: vec!["only top-level ports are compared (Simulator::get); designs are Simulator-API driven, not native testbenches".into()],
        wall_s: wall,
        violations: nviol,
    }
    .write();
    println!("C33: schedules={total} distinct={} violations={nviol} known={known_hits} wall={wall:.1}s", distinct.len());
    std::process::exit(exit);
}
