//! Shim for the `async-channel` crate name: provides exactly the calls
//! `veryl-ls`'s `Server::serve` makes on its queue — `recv_blocking`,
//! `is_empty`, `send_blocking` — each a scheduling point owned by a scripted
//! scenario. This is the entire nondeterminism of the real server loop: when
//! messages arrive relative to background-analysis steps.
//!
//! A script is a list of items. A message item carries `polls`: how many
//! `is_empty()` polls answer "empty" (letting one background step run each)
//! before the message counts as arrived. Action items run on the server thread
//! right before the next message is handed out (disk operations of the editor).
//! When the script is exhausted the queue stays empty until background work has
//! drained, then `recv_blocking` unwinds with [`StopToken`].

use std::collections::VecDeque;
use std::fmt;
use std::sync::{Arc, Mutex};

pub struct StopToken;

pub enum Item<T> {
    Msg { polls: u32, msg: T },
    Act(Box<dyn FnOnce() + Send>),
}

#[derive(Default)]
pub struct Stats {
    /// `is_empty()` answered true while messages were still to come
    /// (a background step ran before the next message).
    pub background_steps_before_message: u64,
    /// `is_empty()` answered false (a message pre-empted pending background work).
    pub message_preempted_background: u64,
    pub polls: u64,
    pub recvs: u64,
}

struct Shared<T> {
    script: VecDeque<Item<T>>,
    stats: Stats,
}

pub struct Receiver<T> {
    shared: Arc<Mutex<Shared<T>>>,
}

pub struct Sender<T> {
    sent: Arc<Mutex<Vec<T>>>,
}

pub struct RecvError;
pub struct SendError<T>(pub T);

impl fmt::Debug for RecvError {
    fn fmt(&self, f: &mut fmt::Formatter) -> fmt::Result {
        write!(f, "RecvError")
    }
}
impl<T> fmt::Debug for SendError<T> {
    fn fmt(&self, f: &mut fmt::Formatter) -> fmt::Result {
        write!(f, "SendError")
    }
}

/// A scripted receiver plus a handle to read its statistics afterwards.
pub fn scripted<T>(script: Vec<Item<T>>) -> (Receiver<T>, StatsHandle<T>) {
    let shared = Arc::new(Mutex::new(Shared { script: script.into(), stats: Stats::default() }));
    (Receiver { shared: shared.clone() }, StatsHandle { shared })
}

pub struct StatsHandle<T> {
    shared: Arc<Mutex<Shared<T>>>,
}

impl<T> StatsHandle<T> {
    pub fn take(&self) -> Stats {
        std::mem::take(&mut self.shared.lock().unwrap().stats)
    }
}

/// A sender that records what the server answered (requests are not part of the scripts).
pub fn sink<T>() -> (Sender<T>, Arc<Mutex<Vec<T>>>) {
    let sent = Arc::new(Mutex::new(Vec::new()));
    (Sender { sent: sent.clone() }, sent)
}

impl<T> Receiver<T> {
    pub fn is_empty(&self) -> bool {
        let mut s = self.shared.lock().unwrap();
        s.stats.polls += 1;
        // Actions in front of a message do not count as queue content.
        let next = s.script.iter_mut().find_map(|i| match i {
            Item::Msg { polls, .. } => Some(polls),
            Item::Act(_) => None,
        });
        match next {
            None => true,
            Some(polls) if *polls > 0 => {
                *polls -= 1;
                s.stats.background_steps_before_message += 1;
                true
            }
            Some(_) => {
                s.stats.message_preempted_background += 1;
                false
            }
        }
    }

    pub fn recv_blocking(&self) -> Result<T, RecvError> {
        loop {
            // Never hold the lock while running an action (it may touch the queue).
            let item = {
                let mut s = self.shared.lock().unwrap();
                s.stats.recvs += 1;
                s.script.pop_front()
            };
            match item {
                None => std::panic::resume_unwind(Box::new(StopToken)),
                Some(Item::Act(f)) => f(),
                Some(Item::Msg { msg, .. }) => return Ok(msg),
            }
        }
    }
}

impl<T> Sender<T> {
    pub fn send_blocking(&self, msg: T) -> Result<(), SendError<T>> {
        self.sent.lock().unwrap().push(msg);
        Ok(())
    }
}
