//! lssim — C07: language-server diagnostics depend only on the current buffers.
//!
//! The repository's real `Server` (message loop, on_change, background_analyze,
//! LsIncremental; `server.rs`/`incremental.rs`/`keyword.rs` included from the
//! working tree) runs on its own thread against a real tower-lsp `Client`. Its
//! message queue is the `async-channel` shim: the scripted scenario decides at
//! every poll whether the next editor message has already arrived, i.e. how
//! messages interleave with background-analysis steps. Editor, disk and server
//! restarts are simulated; the oracle is a freshly started server on a pristine
//! copy of the final disk state with the same buffers.
#![recursion_limit = "256"]
#![allow(dead_code)]

#[path = "/repo/crates/languageserver/src/incremental.rs"]
mod incremental;
#[path = "/repo/crates/languageserver/src/keyword.rs"]
mod keyword;
#[path = "/repo/crates/languageserver/src/server.rs"]
pub mod server;

use async_channel::Item;
use futures::StreamExt;
use serde::{Deserialize, Serialize};
use serde_json::{json, Value};
use server::{MsgFromServer, MsgToServer, Server};
use simcore::evidence::{Counters, Evidence};
use simcore::fsutil::{self, Scratch};
use simcore::rng::{mix, verif_seed, Rng};
use std::collections::{BTreeMap, BTreeSet};
use std::path::{Path, PathBuf};
use std::sync::{Arc, Mutex};
use tower::Service;
use tower_lsp_server::jsonrpc::{Request, Response};
use tower_lsp_server::ls_types::Uri as Url;
use tower_lsp_server::ls_types::*;
use tower_lsp_server::{Client, LanguageServer, LspService};
use wgen::Project;

#[derive(Clone, Debug, Serialize, Deserialize, PartialEq)]
pub enum Ev {
    Open { file: String },
    Change { file: String, text: String },
    /// Editor writes the buffer to disk (the adapter forwards no didSave).
    Save { file: String },
    /// Editor discards the buffer (the adapter forwards no didClose).
    Close { file: String },
    Rename { file: String, to: String },
    Delete { file: String },
    /// The server process is restarted; only the disk (incl. .build/cache-ls)
    /// survives. An external edit of an unopened file may happen right before.
    Restart { external: Option<(String, String)> },
}

#[derive(Clone, Debug, Serialize, Deserialize)]
pub struct Scenario {
    pub project: Project,
    /// (polls, event): `polls` background steps may run before the event's first message arrives.
    pub events: Vec<(u32, Ev)>,
}

struct Dummy;
impl LanguageServer for Dummy {
    async fn initialize(&self, _: InitializeParams) -> tower_lsp_server::jsonrpc::Result<InitializeResult> {
        Ok(InitializeResult::default())
    }
    async fn shutdown(&self) -> tower_lsp_server::jsonrpc::Result<()> {
        Ok(())
    }
}

fn url_of(path: &Path) -> Url {
    Url::from_file_path(path).expect("file url")
}

/// One server lifetime: runs `script` on a fresh thread (fresh thread-local
/// analyzer tables = a fresh server process). Returns the recorded
/// notifications, queue statistics and whether the server panicked.
struct SessionOut {
    published: Vec<Value>,
    stats: async_channel::Stats,
    panic: Option<String>,
}

fn run_session(script: Vec<Item<MsgToServer>>, cache_dir: PathBuf) -> SessionOut {
    let slot: Arc<Mutex<Option<Client>>> = Arc::new(Mutex::new(None));
    let slot2 = slot.clone();
    let (mut service, socket) = LspService::new(move |c| {
        *slot2.lock().unwrap() = Some(c);
        Dummy
    });
    let init = Request::build("initialize").params(json!(InitializeParams::default())).id(1).finish();
    let _ = futures::executor::block_on(service.call(init));
    let inited = Request::build("initialized").params(json!(InitializedParams {})).finish();
    let _ = futures::executor::block_on(service.call(inited));
    let client = slot.lock().unwrap().take().expect("client");

    let recorded: Arc<Mutex<Vec<Value>>> = Arc::new(Mutex::new(vec![]));
    let rec2 = recorded.clone();
    let (mut stream, mut sink) = socket.split();
    let drainer = std::thread::spawn(move || {
        futures::executor::block_on(async {
            use futures::SinkExt;
            while let Some(req) = stream.next().await {
                let v = serde_json::to_value(&req).unwrap_or(Value::Null);
                rec2.lock().unwrap().push(v);
                if let Some(id) = req.id() {
                    let _ = sink.send(Response::from_ok(id.clone(), Value::Null)).await;
                }
            }
        });
    });

    let (rcv, stats) = async_channel::scripted(script);
    let (snd, _answers) = async_channel::sink::<MsgFromServer>();
    let server_thread = std::thread::Builder::new()
        .stack_size(64 << 20)
        .spawn(move || {
            veryl_path::sim::set_thread_cache_path(Some(cache_dir));
            let r = std::panic::catch_unwind(std::panic::AssertUnwindSafe(|| {
                let mut server = Server::new(client, rcv, snd);
                server.serve();
            }));
            match r {
                Ok(()) => None,
                Err(p) => {
                    if p.downcast_ref::<async_channel::StopToken>().is_some() {
                        None
                    } else {
                        Some(
                            p.downcast_ref::<String>()
                                .cloned()
                                .or_else(|| p.downcast_ref::<&str>().map(|s| s.to_string()))
                                .unwrap_or_else(|| "panic".into()),
                        )
                    }
                }
            }
        })
        .unwrap();
    let panic = server_thread.join().unwrap_or(Some("server thread died".into()));
    drop(service);
    let _ = drainer.join();
    let published = recorded.lock().unwrap().clone();
    SessionOut { published, stats: stats.take(), panic }
}

/// The editor's and the disk's state while a scenario is turned into scripts.
#[derive(Clone, Default)]
struct Model {
    disk: BTreeMap<String, String>,
    /// open buffers: file -> (text, version)
    buffers: BTreeMap<String, (String, i32)>,
    /// files closed while their buffer differed from the disk (server never told)
    closed_dirty: BTreeSet<String>,
}

fn msg(polls: u32, m: MsgToServer) -> Item<MsgToServer> {
    Item::Msg { polls, msg: m }
}

fn act<F: FnOnce() + Send + 'static>(f: F) -> Item<MsgToServer> {
    Item::Act(Box::new(f))
}

pub struct Outcome {
    pub violation: Option<(String, String)>,
    pub counters: Counters,
    pub interleaving: u64,
}

fn norm_diag(d: &Value, root: &Path) -> String {
    let s = serde_json::to_string(d).unwrap_or_default();
    s.replace(&root.to_string_lossy().to_string(), "$ROOT")
}

/// Last publishDiagnostics per URI (normalised multiset of diagnostics).
fn last_published(published: &[Value], root: &Path) -> BTreeMap<String, (Option<i64>, Vec<String>)> {
    let mut m = BTreeMap::new();
    for v in published {
        if v.get("method").and_then(|x| x.as_str()) != Some("textDocument/publishDiagnostics") {
            continue;
        }
        let p = &v["params"];
        let uri = p["uri"].as_str().unwrap_or("").replace(&root.to_string_lossy().to_string(), "$ROOT");
        let mut diags: Vec<String> = p["diagnostics"].as_array().map(|a| a.iter().map(|d| norm_diag(d, root)).collect()).unwrap_or_default();
        diags.sort();
        m.insert(uri, (p["version"].as_i64(), diags));
    }
    m
}

pub fn run(sc: &Scenario) -> Outcome {
    let mut counters = Counters::default();
    let scratch = Scratch::fixed(fsutil::hash_u64(format!("{:?}{:?}", sc.project, sc.events).as_bytes()) ^ 0x07);
    let hroot = scratch.path.join("h").join("prj");
    let rroot = scratch.path.join("r").join("prj");
    let hcache = scratch.path.join("h").join("ucache");
    let rcache = scratch.path.join("r").join("ucache");
    std::fs::create_dir_all(&hcache).unwrap();
    std::fs::create_dir_all(&rcache).unwrap();
    fsutil::write_file(&hroot.join("Veryl.toml"), sc.project.toml.render("prj").as_bytes());
    let mut model = Model::default();
    for (f, c) in &sc.project.files {
        fsutil::write_file(&hroot.join(f), c.as_bytes());
        model.disk.insert(f.clone(), c.clone());
    }

    // Split the events into server lifetimes and build one script per lifetime.
    let mut sessions: Vec<Vec<Item<MsgToServer>>> = vec![vec![]];
    let mut between: Vec<Option<(String, String)>> = vec![];
    for (polls, ev) in &sc.events {
        let polls = *polls;
        let cur = sessions.last_mut().unwrap();
        match ev {
            Ev::Open { file } => {
                if model.buffers.contains_key(file) || !model.disk.contains_key(file) {
                    continue;
                }
                let text = model.disk[file].clone();
                model.buffers.insert(file.clone(), (text.clone(), 1));
                model.closed_dirty.remove(file);
                cur.push(msg(polls, MsgToServer::DidOpen { url: url_of(&hroot.join(file)), text, version: 1 }));
                counters.inc("event.open");
            }
            Ev::Change { file, text } => {
                let Some((t, v)) = model.buffers.get_mut(file) else { continue };
                *t = text.clone();
                *v += 1;
                cur.push(msg(polls, MsgToServer::DidChange { url: url_of(&hroot.join(file)), text: text.clone(), version: *v }));
                counters.inc("event.change");
            }
            Ev::Save { file } => {
                let Some((t, _)) = model.buffers.get(file) else { continue };
                model.disk.insert(file.clone(), t.clone());
                let (p, t) = (hroot.join(file), t.clone());
                cur.push(act(move || fsutil::write_file(&p, t.as_bytes())));
                counters.inc("event.save");
            }
            Ev::Close { file } => {
                let Some((t, _)) = model.buffers.remove(file) else { continue };
                if model.disk.get(file) != Some(&t) {
                    model.closed_dirty.insert(file.clone());
                    counters.inc("event.close_with_unsaved_edits");
                }
                counters.inc("event.close");
            }
            Ev::Rename { file, to } => {
                if !model.disk.contains_key(file) || model.disk.contains_key(to) {
                    continue;
                }
                let c = model.disk.remove(file).unwrap();
                model.disk.insert(to.clone(), c);
                cur.push(msg(polls, MsgToServer::WillRenameFile { old_url: url_of(&hroot.join(file)) }));
                let (a, b) = (hroot.join(file), hroot.join(to));
                cur.push(act(move || {
                    let _ = std::fs::rename(&a, &b);
                }));
                cur.push(msg(0, MsgToServer::DidRenameFile { new_url: url_of(&hroot.join(to)) }));
                if let Some((t, _)) = model.buffers.remove(file) {
                    // editors close the old document and open the new one
                    model.buffers.insert(to.clone(), (t.clone(), 1));
                    cur.push(msg(0, MsgToServer::DidOpen { url: url_of(&hroot.join(to)), text: t, version: 1 }));
                    counters.inc("event.rename_open_file");
                }
                if model.closed_dirty.remove(file) {
                    model.closed_dirty.insert(to.clone());
                }
                counters.inc("event.rename");
            }
            Ev::Delete { file } => {
                if !model.disk.contains_key(file) {
                    continue;
                }
                model.disk.remove(file);
                model.buffers.remove(file);
                model.closed_dirty.remove(file);
                cur.push(msg(polls, MsgToServer::WillDeleteFile { url: url_of(&hroot.join(file)) }));
                let p = hroot.join(file);
                cur.push(act(move || {
                    let _ = std::fs::remove_file(&p);
                }));
                counters.inc("event.delete");
            }
            Ev::Restart { external } => {
                let ext = external.clone().filter(|(f, _)| model.disk.contains_key(f) && !model.buffers.contains_key(f));
                if let Some((f, t)) = &ext {
                    model.disk.insert(f.clone(), t.clone());
                    counters.inc("event.external_edit_before_restart");
                }
                between.push(ext);
                // a restarted server knows nothing about closed documents
                model.closed_dirty.clear();
                let mut next = vec![];
                let open: Vec<(String, (String, i32))> = model.buffers.iter().map(|(k, v)| (k.clone(), v.clone())).collect();
                for (i, (f, (t, v))) in open.into_iter().enumerate() {
                    model.buffers.get_mut(&f).unwrap().1 = v + 1;
                    next.push(msg(if i == 0 { 0 } else { polls }, MsgToServer::DidOpen { url: url_of(&hroot.join(&f)), text: t, version: v + 1 }));
                }
                sessions.push(next);
                counters.inc("event.restart");
            }
        }
    }
    // Quiesce and probe: one didChange(same text) per open buffer after all background work.
    let mut probe_versions = BTreeMap::new();
    {
        let cur = sessions.last_mut().unwrap();
        let names: Vec<String> = model.buffers.keys().cloned().collect();
        for f in names {
            let (t, v) = model.buffers.get_mut(&f).unwrap();
            *v += 1;
            probe_versions.insert(f.clone(), *v);
            cur.push(msg(u32::MAX, MsgToServer::DidChange { url: url_of(&hroot.join(&f)), text: t.clone(), version: *v }));
        }
    }
    if model.buffers.is_empty() {
        return Outcome { violation: None, counters, interleaving: 0 };
    }

    let mut published = vec![];
    let mut inter = String::new();
    let nsessions = sessions.len();
    for (i, script) in sessions.into_iter().enumerate() {
        let out = run_session(script, hcache.clone());
        counters.add("queue.background_steps_before_message", out.stats.background_steps_before_message);
        counters.add("queue.message_preempted_background", out.stats.message_preempted_background);
        counters.add("queue.polls", out.stats.polls);
        inter.push_str(&format!("{}:{}:{};", out.stats.background_steps_before_message, out.stats.message_preempted_background, out.stats.polls));
        if let Some(p) = out.panic {
            // where it panicked (recorded by the panic hook) identifies a recorded finding
            let loc = LAST_PANIC_LOCATION.lock().map(|l| l.clone()).unwrap_or_default();
            let mixin = sc.project.files.values().any(|t| t.contains("mixin "))
                || sc.events.iter().any(|(_, e)| format!("{e:?}").contains("mixin "));
            let class = if loc.contains("conv/utils.rs") && p.contains("Option::unwrap()") && mixin {
                "server-panic:modport-member-of-mixed-in-variable"
            } else {
                "server-panic"
            };
            return Outcome { violation: Some((class.into(), format!("server thread panicked in lifetime {i}: {p} at {loc}"))), counters, interleaving: 0 };
        }
        published = out.published;
        if i + 1 < nsessions
            && let Some(Some((f, t))) = between.get(i)
        {
            fsutil::write_file(&hroot.join(f), t.as_bytes());
        }
    }
    let restored = published.iter().filter(|v| v.get("method").and_then(|x| x.as_str()) == Some("window/logMessage")).count();
    counters.add("last_lifetime.background_analyze_log_messages", restored as u64);

    // Reference: fresh server, pristine copy of the final disk state, same buffers.
    fsutil::write_file(&rroot.join("Veryl.toml"), sc.project.toml.render("prj").as_bytes());
    for (f, c) in &model.disk {
        fsutil::write_file(&rroot.join(f), c.as_bytes());
    }
    let mut rscript = vec![];
    let mut order: Vec<(&String, &(String, i32))> = model.buffers.iter().collect();
    if std::env::var("LSSIM_REF_REVERSE").is_ok() {
        order.reverse();
    }
    for (f, (t, _)) in order {
        rscript.push(msg(u32::MAX, MsgToServer::DidOpen { url: url_of(&rroot.join(f)), text: t.clone(), version: 1 }));
    }
    for (f, (t, _)) in &model.buffers {
        rscript.push(msg(u32::MAX, MsgToServer::DidChange { url: url_of(&rroot.join(f)), text: t.clone(), version: 2 }));
    }
    let rout = run_session(rscript, rcache.clone());
    if let Some(p) = rout.panic {
        // The fresh server panics on these buffers: a C11 matter, nothing to compare with.
        counters.inc("reference.panicked");
        let _ = p;
        return Outcome { violation: None, counters, interleaving: 0 };
    }
    let got = last_published(&published, &hroot);
    let want = last_published(&rout.published, &rroot);
    let mut violation = None;
    for f in model.buffers.keys() {
        let uri = format!("file://$ROOT/{f}");
        let g = got.get(&uri);
        let w = want.get(&uri);
        let (Some(g), Some(w)) = (g, w) else {
            violation = Some(("no-diagnostics-published".to_string(), format!("{f}: server published {:?}, fresh server {:?}", g.is_some(), w.is_some())));
            break;
        };
        if g.0 != Some(probe_versions[f] as i64) {
            violation = Some(("stale-version".to_string(), format!("{f}: last publishDiagnostics carries version {:?}, the probe change was version {}", g.0, probe_versions[f])));
            break;
        }
        if g.1 != w.1 && std::env::var("LSSIM_DUMP").is_ok() {
            eprintln!("--- {f}: server:");
            for d in &g.1 {
                eprintln!("   {d}");
            }
            eprintln!("--- {f}: fresh server:");
            for d in &w.1 {
                eprintln!("   {d}");
            }
        }
        if g.1 != w.1 {
            let only_g: Vec<&String> = g.1.iter().filter(|d| !w.1.contains(d)).collect();
            let only_w: Vec<&String> = w.1.iter().filter(|d| !g.1.contains(d)).collect();
            let class = if !model.closed_dirty.is_empty() {
                "diagnostics-differ:closed-buffer-with-unsaved-edits"
            } else if only_w.is_empty() {
                "diagnostics-differ:extra"
            } else if only_g.is_empty() {
                "diagnostics-differ:missing"
            } else {
                "diagnostics-differ"
            };
            violation = Some((class.to_string(), format!("{f}: server says {} diagnostic(s), a fresh server {}; only here: {:?}; only fresh: {:?}", g.1.len(), w.1.len(), only_g, only_w)));
            break;
        }
    }
    Outcome { violation, counters, interleaving: fsutil::hash_u64(inter.as_bytes()) }
}

fn broken_prefix(rng: &mut Rng, text: &str) -> String {
    let n = text.len();
    if n < 4 {
        return text.to_string();
    }
    let mut cut = 1 + rng.below(n - 1);
    while !text.is_char_boundary(cut) {
        cut -= 1;
    }
    text[..cut].to_string()
}

pub fn gen_scenario(seed: u64) -> Scenario {
    let mut rng = Rng::new(seed);
    let clean = rng.chance(2, 3);
    let mut g = wgen::gen_project(&mut rng, clean, false);
    g.project.toml.incremental = rng.chance(4, 5);
    // Files of a path dependency belong to another project (their own Veryl.toml): they stay on
    // disk as a dependency but the simulated editor works on the root project's files only.
    let slots: Vec<&wgen::Slot> = g.units.iter().flat_map(|u| u.slots.iter()).filter(|s| !s.path.starts_with("../")).collect();
    let mut events = vec![];
    let mut open: Vec<String> = vec![];
    let mut exists: BTreeSet<String> = g.project.files.keys().cloned().collect();
    let n = 4 + rng.below(14);
    // first event: open something
    let first = rng.pick(&slots).path.to_string();
    events.push((0, Ev::Open { file: first.clone() }));
    open.push(first);
    let polls = |rng: &mut Rng| match rng.below(6) {
        0 | 1 => 0,
        2 => 1,
        3 => 2,
        4 => rng.below(8) as u32,
        _ => 1000,
    };
    for _ in 0..n {
        let slot = *rng.pick(&slots);
        let cur_name = |exists: &BTreeSet<String>| {
            if exists.contains(slot.path) {
                Some(slot.path.to_string())
            } else {
                let r = slot.path.replace(".veryl", "_r.veryl");
                exists.contains(&r).then_some(r)
            }
        };
        let Some(file) = cur_name(&exists) else { continue };
        let p = polls(&mut rng);
        match rng.below(100) {
            0..=17 => {
                if !open.contains(&file) {
                    events.push((p, Ev::Open { file: file.clone() }));
                    open.push(file);
                }
            }
            18..=54 => {
                if open.contains(&file) {
                    let v = rng.pick(&slot.variants).to_string();
                    let text = if rng.chance(1, 4) { broken_prefix(&mut rng, &v) } else { v };
                    events.push((p, Ev::Change { file, text }));
                }
            }
            55..=62 => {
                if open.contains(&file) {
                    events.push((p, Ev::Save { file }));
                }
            }
            63..=68 => {
                if open.contains(&file) && open.len() > 1 {
                    events.push((p, Ev::Close { file: file.clone() }));
                    open.retain(|x| x != &file);
                }
            }
            69..=78 => {
                let to = if file.ends_with("_r.veryl") { slot.path.to_string() } else { file.replace(".veryl", "_r.veryl") };
                if !exists.contains(&to) {
                    events.push((p, Ev::Rename { file: file.clone(), to: to.clone() }));
                    exists.remove(&file);
                    exists.insert(to.clone());
                    if open.contains(&file) {
                        open.retain(|x| x != &file);
                        open.push(to);
                    }
                }
            }
            // File deletion is not among the notifications the property quantifies over
            // (open, change, save, rename, close); `Ev::Delete` stays replayable but is not generated.
            79..=83 => {}
            _ => {
                let external = if rng.chance(1, 2) && !open.contains(&file) { Some((file.clone(), rng.pick(&slot.variants).to_string())) } else { None };
                events.push((p, Ev::Restart { external }));
            }
        }
    }
    Scenario { project: g.project, events }
}

fn minimise(sc: &Scenario, class: &str) -> Scenario {
    let mut best = sc.clone();
    let same = |c: &Scenario| run(c).violation.is_some_and(|v| v.0 == class);
    let mut budget = 60;
    let mut changed = true;
    while changed && budget > 0 {
        changed = false;
        let mut i = 0;
        while i < best.events.len() && budget > 0 {
            let mut cand = best.clone();
            cand.events.remove(i);
            budget -= 1;
            if same(&cand) {
                best = cand;
                changed = true;
            } else {
                i += 1;
            }
        }
    }
    // simplify delivery points: prefer "everything before any background step" (0)
    for i in 0..best.events.len() {
        if budget == 0 {
            break;
        }
        if best.events[i].0 != 0 {
            let mut cand = best.clone();
            cand.events[i].0 = 0;
            budget -= 1;
            if same(&cand) {
                best = cand;
            }
        }
    }
    best
}

static LAST_PANIC_LOCATION: std::sync::Mutex<String> = std::sync::Mutex::new(String::new());

fn main() {
    let args: Vec<String> = std::env::args().collect();
    std::panic::set_hook(Box::new(|info| {
        if info.payload().downcast_ref::<async_channel::StopToken>().is_none() {
            if let (Some(l), Ok(mut g)) = (info.location(), LAST_PANIC_LOCATION.lock()) {
                *g = format!("{}:{}", l.file(), l.line());
            }
            if std::env::var("LSSIM_VERBOSE").is_ok() {
                eprintln!("panic: {info}");
            }
        }
    }));
    if args.len() >= 3 && args[1] == "--replay" {
        let text = std::fs::read_to_string(&args[2]).expect("read replay");
        let v: Value = serde_json::from_str(&text).expect("parse replay");
        let sc: Scenario = serde_json::from_value(v["scenario"].clone()).expect("scenario");
        let o = run(&sc);
        let code = match o.violation {
            Some((class, detail)) => {
                if std::env::var("VERIF_REPLAY_CHILD").is_err() {
                    println!("replayed [{class}]: {detail}");
                    println!("VIOLATION property=C07 replay={}", args[2]);
                }
                1
            }
            None => {
                println!("replay did not reproduce a violation");
                0
            }
        };
        std::process::exit(code);
    }
    if args.len() >= 5 && args[1] == "--actor" {
        // Actor mode (used by procsim's C30 scenarios): one server lifetime on an existing
        // project directory, as a process whose gates (cache-ls lock, Veryl.lock, path order,
        // std expansion) are owned by the coordinator through VERYL_SIM_SOCK.
        //   lssim --actor <project root> <out.json> <file>...
        let root = PathBuf::from(&args[2]);
        let out = PathBuf::from(&args[3]);
        let files: Vec<String> = args[4..].to_vec();
        let mut script = vec![];
        let mut texts = BTreeMap::new();
        for f in &files {
            let t = std::fs::read_to_string(root.join(f)).unwrap_or_default();
            texts.insert(f.clone(), t.clone());
            script.push(msg(u32::MAX, MsgToServer::DidOpen { url: url_of(&root.join(f)), text: t, version: 1 }));
        }
        for f in &files {
            script.push(msg(u32::MAX, MsgToServer::DidChange { url: url_of(&root.join(f)), text: texts[f].clone(), version: 2 }));
        }
        // the user cache comes from the environment (XDG_CACHE_HOME), as for the CLI
        let cache = veryl_path::cache_path();
        let o = run_session(script, cache);
        let last = last_published(&o.published, &root);
        let v = json!({"panic": o.panic, "diagnostics": last.iter().map(|(k, (ver, d))| (k.clone(), json!({"version": ver, "diagnostics": d}))).collect::<BTreeMap<_, _>>()});
        std::fs::write(&out, serde_json::to_string_pretty(&v).unwrap()).unwrap();
        std::process::exit(if o.panic.is_some() { 101 } else { 0 });
    }
    let tier = args.get(1).cloned().unwrap_or_else(simcore::evidence::tier);
    let seed = verif_seed();
    let n: usize = std::env::var("VERIF_N").ok().and_then(|x| x.parse().ok()).unwrap_or(if tier == "thorough" { 6000 } else { 400 });
    let start = std::time::Instant::now();
    println!("lssim C07 tier={tier} VERIF_SEED={seed} scenarios={n}");
    let jobs = simcore::pool::workers();
    let results = simcore::pool::par_map(n, jobs, |i| {
        let sc = gen_scenario(mix(seed, "C07", i as u64));
        let o = run(&sc);
        (sc, o)
    });
    let mut counters = Counters::default();
    let mut inters = BTreeSet::new();
    let mut distinct = BTreeSet::new();
    let mut samples = vec![];
    let mut found: Vec<(Scenario, String, String)> = vec![];
    for (i, (sc, o)) in results.into_iter().enumerate() {
        counters.merge(&o.counters);
        inters.insert(o.interleaving);
        if o.counters.get("queue.background_steps_before_message") > 0 && o.counters.get("queue.message_preempted_background") > 0 {
            distinct.insert(fsutil::hash_u64(format!("{:?}", sc.events).as_bytes()));
        }
        if i < 3 {
            samples.push(json!({"files": sc.project.files.keys().collect::<Vec<_>>(), "events": sc.events.iter().map(|(p, e)| format!("polls={p} {}", format!("{e:?}").chars().take(90).collect::<String>())).collect::<Vec<_>>()}));
        }
        if let Some((c, d)) = o.violation {
            found.push((sc, c, d));
        }
    }
    let known = simcore::evidence::load_known("C07");
    let mut exit = 0;
    let mut nviol = 0u64;
    let mut known_hits = 0u64;
    let mut seen = BTreeSet::new();
    let mut printed = BTreeSet::new();
    for (sc, class, detail) in found {
        if let Some(k) = known.iter().find(|k| k.status == "known" && class.contains(&k.key)) {
            known_hits += 1;
            if printed.insert(k.key.clone()) {
                println!("KNOWN-FINDING: property=C07 {}", k.what);
            }
            continue;
        }
        if !seen.insert(class.clone()) {
            continue;
        }
        let min = minimise(&sc, &class);
        let o = run(&min);
        let Some((c2, d2)) = o.violation else {
            eprintln!("harness error: minimised scenario does not reproduce: {detail}");
            exit = exit.max(2);
            continue;
        };
        let path = simcore::evidence::write_replay("C07", &format!("{seed}-{nviol}"), &json!({"property": "C07", "violation_class": c2, "violation": d2, "scenario": min, "seed": seed}));
        let child = std::process::Command::new(std::env::current_exe().unwrap()).arg("--replay").arg(&path).env("VERIF_REPLAY_CHILD", "1").output();
        if child.map(|o| o.status.code() == Some(1)).unwrap_or(false) {
            println!("violation [{c2}]: {d2}");
            println!("VIOLATION property=C07 replay={}", path.display());
            nviol += 1;
            exit = 1;
        } else {
            eprintln!("harness error: C07 violation did not replay in a fresh process ({}): {d2}", path.display());
            exit = exit.max(2);
        }
    }
    for p in ["queue.background_steps_before_message", "queue.message_preempted_background", "event.restart", "event.rename", "event.change"] {
        if counters.get(p) == 0 {
            eprintln!("harness error: reach probe {p} stayed at zero");
            exit = exit.max(2);
        }
    }
    let wall = start.elapsed().as_secs_f64();
    let mut extra = serde_json::Map::new();
    extra.insert("probes".into(), counters.to_json());
    extra.insert("distinct_interleavings".into(), json!(inters.len()));
    extra.insert("interleaving_measure".into(), json!("hash of per-lifetime (background steps run before a message, messages that pre-empted background work, polls)"));
    extra.insert("runs_per_hour".into(), json!((n as f64 / wall * 3600.0) as u64));
    extra.insert("known_finding_hits".into(), json!(known_hits));
    extra.insert("components".into(), json!({"real": ["veryl-ls Server (serve loop, did_open/did_change/on_change, did_rename_files, on_remove, background_analyze, LsIncremental with .build/cache-ls)", "analyzer, parser", "tower-lsp Client and ClientSocket"], "simulated": ["the message queue between adapter and server (async-channel shim): arrival of every message relative to background steps", "editor, disk operations, server restarts"], "stub": ["backend.rs / main.rs of veryl-ls (async LSP adapter, tokio, stdio) are not run: the driver produces MsgToServer values directly; the adapter forwards no didSave/didClose, which the driver models by sending nothing"]}));
    Evidence {
        property_id: "C07".into(),
        tier: tier.clone(),
        seed,
        level: "exploration".into(),
        evaluations: n as u64,
        distinct_nontrivial: distinct.len() as u64,
        rule: "seeded projects (shape library) x scripts of 5-18 editor events (open, change to a variant or to a broken prefix, save, close, rename incl. open files, delete, server restart with optional external edit) x a delivery point per event (how many background steps run before it arrives); after the script the server is quiesced and probed with one didChange(same text) per open buffer and its last publishDiagnostics per file is compared with a freshly started server on a pristine copy of the final disk state with the same buffers. distinct_nontrivial = distinct scripts in which a message both waited for and pre-empted background work".into(),
        samples,
        extra,
        assumptions: vec![
            "only the quiesced probe is compared: diagnostics filtered while background analysis is pending are not".into(),
            "external edits of unopened files happen only immediately before a restart (the server is never notified of them)".into(),
        ],
        wall_s: wall,
        violations: nviol,
    }
    .write();
    println!("C07: scenarios={n} interleavings={} nontrivial={} violations={nviol} known={known_hits} wall={wall:.1}s", inters.len(), distinct.len());
    fsutil::cleanup_scratch_root();
    std::process::exit(exit);
}
