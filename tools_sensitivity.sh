#!/bin/sh
# Sensitivity regression: every canary and every seeded change against the quick check of
# its property. Applies each patch to /repo, runs ./check <ID> quick with VERIF_OUT=/tmp/canary,
# reverts. Writes /verif/sensitivity.tsv (patch, property, exit, violation class).
# Usage: tools_sensitivity.sh [pattern]
cd /verif
OUT=/verif/sensitivity.tsv
PAT="${1:-.}"
[ "$PAT" = "." ] && : > $OUT
run() { # patch id
  echo "$1" | grep -q "$PAT" || return
  if ! git -C /repo diff --quiet; then echo "/repo has local changes; refusing" >&2; exit 3; fi
  git -C /repo apply "$1" || { printf '%s\t%s\tAPPLY-FAILED\t\n' "$1" "$2" >> $OUT; return; }
  env VERIF_OUT=/tmp/canary ./check "$2" quick > /tmp/canary-$2.log 2>&1; RC=$?
  git -C /repo checkout -- .
  CLS=$(grep '^violation' /tmp/canary-$2.log | head -1 | sed 's/^violation \[\([^]]*\)\].*/\1/' | cut -c1-100)
  printf '%s\t%s\t%s\t%s\n' "${1#/verif/}" "$2" "$RC" "$CLS" | tee -a $OUT
}
for f in /verif/canaries/*.diff; do
  b=$(basename $f); id=$(echo $b | cut -c1-3 | tr c C)
  run $f $id
  case $b in c04_dst_never_stale.diff) run $f C27;; esac
done
for d in /verif/seeded/C*; do
  id=$(basename $d)
  for f in $d/patch*.diff; do [ -f $f ] && run $f $id; done
done
git -C /repo status --short
# rebuild the harness binaries from the reverted tree (the check above left mutant binaries)
cd /verif && cargo build --offline --workspace >/dev/null 2>&1
