#!/bin/sh
# Dev helper: run quick checks under several VERIF_SEED values without touching
# committed evidence/replays (VERIF_OUT). Usage: tools_sweep.sh "<ids>" "<seeds>"
IDS="${1:-C04 C05 C24 C27 C29 C30}"; SEEDS="${2:-1 2 3}"
OUT=/tmp/sweep; mkdir -p $OUT
for seed in $SEEDS; do for id in $IDS; do
  case $id in C29) BIN=storesim; A="quick";; C07) BIN=lssim; A="quick";; C06) BIN=fragsim; A="quick";; C33) BIN=swapsim; A="quick";; C31) BIN=depsim; A="quick";; *) BIN=procsim; A="$id quick";; esac
  VERIF_OUT=$OUT VERIF_SEED=$seed /verif/target/debug/$BIN $A > $OUT/$id-$seed.log 2>&1; echo "$id seed=$seed exit=$? $(tail -1 $OUT/$id-$seed.log | cut -c1-160)"
done; done
