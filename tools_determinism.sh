#!/bin/sh
# Determinism proof: every engine, several VERIF_SEED values, each run twice in separate
# processes at two worker counts; the evidence files (every probe, gate, fault, decision and
# distinct-state counter the run produced) must be identical apart from wall-clock fields.
# Usage: tools_determinism.sh "<ids>" "<seeds>" [jobsA] [jobsB]
IDS="${1:-C29 C06 C33 C31 C24 C32 C27 C04 C30 C34 C07 C05}"; SEEDS="${2:-20260921 1 2}"
JA="${3:-16}"; JB="${4:-5}"
OUT=/tmp/determinism; rm -rf $OUT; mkdir -p $OUT/a $OUT/b
FAIL=0
norm() { jq -S 'del(.wall_s, .runs_per_hour, .generated_at, .seeds_per_hour, .timing, .sim_time_covered_wall) | walk(if type=="object" then del(.wall_s, .runs_per_hour, .wall_ms, .commands_per_second, .timing) else . end)' "$1"; }
for seed in $SEEDS; do for id in $IDS; do
  case $id in C29) BIN=storesim; A="quick";; C07) BIN=lssim; A="quick";; C06) BIN=fragsim; A="quick";; C33) BIN=swapsim; A="quick";; C31) BIN=depsim; A="quick";; *) BIN=procsim; A="$id quick";; esac
  VERIF_OUT=$OUT/a VERIF_JOBS=$JA VERIF_SEED=$seed /verif/target/debug/$BIN $A > $OUT/a/$id-$seed.log 2>&1; RA=$?
  VERIF_OUT=$OUT/b VERIF_JOBS=$JB VERIF_SEED=$seed /verif/target/debug/$BIN $A > $OUT/b/$id-$seed.log 2>&1; RB=$?
  norm $OUT/a/evidence/$id.json > $OUT/a/$id-$seed.norm; norm $OUT/b/evidence/$id.json > $OUT/b/$id-$seed.norm
  if [ $RA -eq $RB ] && cmp -s $OUT/a/$id-$seed.norm $OUT/b/$id-$seed.norm; then echo "$id seed=$seed jobs=$JA/$JB: identical (exit $RA)"; else echo "$id seed=$seed jobs=$JA/$JB: DIFFERENT (exit $RA/$RB)"; diff $OUT/a/$id-$seed.norm $OUT/b/$id-$seed.norm | head -10; FAIL=1; fi
done; done
exit $FAIL
