#!/usr/bin/env python3
"""Regenerates MANIFEST.json from the table below (keeps it valid at all times)."""
import json, subprocess
props=[json.loads(l) for l in open('/verif/properties.jsonl')]
NA={
'C01':'Pure function of (design, stimulus, [build] settings): no schedule, clock, fault or interleaving for a simulator to own; also no SystemVerilog simulator exists in the sandbox.',
'C02':'Differential comparison of deterministic engines over designs and stimuli; nothing in it depends on scheduling, time or faults (the one timing-dependent engine hand-over is C33, claimed).',
'C03':'Pass toggles are process-global constants; behaviour is a pure function of (design, stimulus, toggle set).',
'C08':'Pure function of (text, [format] settings).',
'C09':'Pure function of (text, settings).',
'C10':'Pure function of the input text; stack depth is a configuration constant, not a run-time fault.',
'C11':'Pure function of the input; a fuzzing target (panics on intermediate LS buffers are monitored as a by-product of C07 only).',
'C12':'Pure function of the input text.',
'C13':'Pure function of (design, layout options).',
'C14':'Pure static analysis of a program.',
'C15':'Pure static analysis of a program.',
'C16':'Pure static analysis of a program (clock domain is a type annotation, not time).',
'C17':'Pure arithmetic; exhaustive/SMT territory.',
'C18':'Pure arithmetic per engine.',
'C19':'Pure translation validation of (design, library, RAM config).',
'C20':'Pure structural property of a returned value.',
'C21':'Pure Boolean equivalence; exhaustive enumeration territory.',
'C22':'Pure translation validation; needs an SV simulator that is not present.',
'C23':'Pure function of the input text.',
'C25':'Pure function of (project, settings); the history-dependent aspect (filelist after incremental restore) is compared under C04.',
'C26':'Pure function of (design, option set).',
'C28':'Pure function of (Doc tree, RenderOpts).',
'C35':'Values crossing the boundary are a pure function of (widths, values); component timing is the deterministic step order; wasm32 transport not installed.',
'C36':'Pure conversion functions and a deterministic dump writer.',
}
CHECKS=json.load(open('/verif/checks.json'))
hooks=subprocess.run(['git','-C','/repo','log','--format=%H %s','5b67d60..HEAD'],capture_output=True,text=True).stdout.strip().split('\n')
hook_commits=[l.split()[0] for l in hooks if ' verif:' in l]
na=[]
for p in props:
    i=p['id']
    if i in CHECKS: continue
    if i in NA: na.append({'property_id':i,'reason':'not applicable to deterministic simulation: '+NA[i]})
    else: na.append({'property_id':i,'reason':'not yet claimed: simulation check under construction (DESIGN.md section 5); moves to checks when its engine is committed'})
checks=[]
for i,c in sorted(CHECKS.items()):
    checks.append({'property_id':i,'quick_cmd':f'./check {i} quick','thorough_cmd':f'./check {i} thorough',
      'evidence_file':f'/verif/evidence/{i}.json','replay_cmd_template':f'./check {i} --replay {{path}}',
      'engine':c['engine'],'level_claimed':{'category':c['level'],'text':c['text'],'design_ref':c['design_ref']},
      'level_note':c['note'],'technique':c['technique']})
engines={}
for i,c in CHECKS.items():
    engines.setdefault(c['engine'],[]).append(i)
ENG_DESC=json.load(open('/verif/engines.json'))
m={'version':1,'setup_cmd':'cd /verif && ./setup.sh',
 'hooks':{'guard':'cargo feature `verif` (veryl-path/verif; forwarding features of the same name in veryl-cache, veryl-std, veryl-metadata, veryl-simulator, veryl)',
  'enable':'the /verif cargo workspace depends on /repo/crates/* by path with features=["verif"]; every check runs `cargo build --offline` there first, so it always rebuilds from the working tree',
  'baseline_off_cmd':'cd /repo && cargo nextest run --workspace --no-fail-fast --test-threads 8 --offline',
  'source_commits':hook_commits,'add_only':True},
 'engines':[{'name':k,'path':ENG_DESC[k]['path'],'serves_properties':sorted(v),'kind_free_text':ENG_DESC[k]['kind']} for k,v in sorted(engines.items())],
 'checks':checks,'not_applicable':na,
 'notes':'Technique family: deterministic simulation with fault injection. Exit codes: 0 held, 1 with a VIOLATION line, 2 harness error. See DESIGN.md.'}
json.dump(m,open('/verif/MANIFEST.json','w'),indent=1)
print('checks:',[c['property_id'] for c in checks],'hook commits:',len(hook_commits))
